#!/bin/bash
# sweep2.sh — quick sweep over a few seeds, then a thorough sweep (one seed); used with `vp run`.
HERE="$(cd "$(dirname "$(readlink -f "$0")")" && pwd)"
"$HERE/sweep.sh" "${1:-20260928 1 2}" "" quick
"$HERE/sweep.sh" "${2:-20260928}" "${3:-C02 C03 C04 C05 C06 C07 C08 C09 C10 C11 C12 C13 C16 C17 C18}" thorough
