//! The simulator core: simulated threads (stackful coroutines on one OS thread), the single
//! decision stream (PRNG or replay), schedulers, the view-based memory model, semaphores for
//! harness-level hand-over, step meters, solo probes, reach probes and statistics.
//!
//! Everything here runs on exactly one OS thread. The runtime is reached through a raw pointer
//! kept in an OS thread-local; no reference to it is ever held across a coroutine switch.

use crate::vclock::{VClock, MAX_THREADS};
use corosensei::stack::DefaultStack;
use corosensei::{Coroutine, CoroutineResult, Yielder};
use std::cell::{Cell, RefCell};
use std::panic::Location;
use std::sync::atomic::Ordering;

pub type Tid = usize;
pub const NO_TID: Tid = usize::MAX;
const STACK_SIZE: usize = 512 * 1024;

// ---------------------------------------------------------------------------------------------
// Configuration
// ---------------------------------------------------------------------------------------------

#[derive(Clone, Copy, PartialEq, Eq, Debug)]
pub enum MemMode {
    /// Interleaving semantics: every load returns the mo-latest store.
    Sc,
    /// View-based C++20 subset: loads may return older stores where coherence allows it.
    Weak,
}

#[derive(Clone, Debug, PartialEq)]
pub enum SchedKind {
    Random,
    /// Stay on the current thread with probability `stay`/256.
    Burst { stay: u32 },
    /// Random priorities with `depth` priority change points in the first `est_len` steps.
    Pct { depth: u32, est_len: u32 },
    /// After every step the victim makes inside a metered operation, the other worker threads
    /// complete `k` whole operations before the victim moves again.
    Adversary { victim: Tid, k: u32 },
}

pub const N_BUGGIFY: usize = 4;
pub const N_PROBES: usize = 40;
/// Event code (outside the probe range) passed to the event hook by `atomic_store` itself.
pub const OWNER_ONLY_STORE: u32 = 1000;
/// Event code base: a node's `in_use` word was just written; code = base + new value.
pub const IN_USE_WRITE_BASE: u32 = 1100;
/// Event codes: a thread entered (took a writer reservation on) / left a node.
pub const WRITER_ENTERED: u32 = 1400;
pub const WRITER_LEFT: u32 = 1401;
pub const N_OPKINDS: usize = 32;

#[derive(Clone, Debug)]
pub struct Config {
    pub mode: MemMode,
    pub sched: SchedKind,
    /// Probability (x/256) that a load with several admissible stores reads the latest one.
    pub p_fresh: u32,
    /// Probability (x/256) of a spurious failure of compare_exchange_weak.
    pub p_spurious: u32,
    /// Probability (x/256) per buggify site.
    pub p_buggify: [u32; N_BUGGIFY],
    /// Probability (x/256) that an allocation reuses a freed address.
    pub p_reuse: u32,
    /// Global cap on scheduling steps; reaching it ends the run as inconclusive.
    pub max_steps: u64,
    /// Solo probes: probability (x/4096) per eligible step to start one; how many per run;
    /// bitmask of operation kinds eligible; cap on own steps (base + per_node * nodes).
    pub probe_rate: u32,
    pub probe_max: u32,
    pub probe_ops: u32,
    pub probe_cap_base: u64,
    pub probe_cap_per_node: u64,
    /// Bound on own steps of metered operations under any schedule (bitmask + bound).
    pub meter_ops: u32,
    pub meter_bound: u64,
    /// Thread-local destructors run last-registered-first (as on Linux) or first-registered-first.
    pub tls_lifo: bool,
    /// How many stores per location stay readable.
    pub history: usize,
    /// After a probe marked as "in-flight state created", switch with this probability (x/256).
    pub p_switch_after_mark: u32,
    /// Fault kind "stalled thread": after such a probe the thread is not scheduled for a drawn
    /// number of global steps (x/256 chance; lengths 30, 150, 600 steps), unless nobody else can run.
    pub p_stall_after_mark: u32,
    /// The same fault at any scheduling point (x/4096 chance per point).
    pub p_stall_any: u32,
}

impl Default for Config {
    fn default() -> Self {
        Config {
            mode: MemMode::Sc,
            sched: SchedKind::Random,
            p_fresh: 192,
            p_spurious: 0,
            p_buggify: [0; N_BUGGIFY],
            p_reuse: 0,
            max_steps: 20_000,
            probe_rate: 0,
            probe_max: 0,
            probe_ops: 0,
            probe_cap_base: 200,
            probe_cap_per_node: 80,
            meter_ops: 0,
            meter_bound: 120,
            tls_lifo: true,
            history: 6,
            p_switch_after_mark: 0,
            p_stall_after_mark: 0,
            p_stall_any: 0,
        }
    }
}

// ---------------------------------------------------------------------------------------------
// Decisions
// ---------------------------------------------------------------------------------------------

#[derive(Clone, Copy, PartialEq, Eq, Debug)]
#[repr(u8)]
pub enum DecKind {
    Sched = 0,
    Read = 1,
    Spurious = 2,
    Buggify = 3,
    Reuse = 4,
    Probe = 5,
    Harness = 6,
    Stall = 7,
}

impl DecKind {
    pub fn ch(self) -> char {
        match self {
            DecKind::Sched => 's',
            DecKind::Read => 'r',
            DecKind::Spurious => 'w',
            DecKind::Buggify => 'b',
            DecKind::Reuse => 'a',
            DecKind::Probe => 'p',
            DecKind::Harness => 'h',
            DecKind::Stall => 'z',
        }
    }
}

#[derive(Clone, Copy, PartialEq, Eq, Debug)]
pub struct Dec {
    pub kind: u8,
    pub pick: u16,
}

/// xoshiro256** seeded through splitmix64.
#[derive(Clone, Debug)]
pub struct Rng {
    s: [u64; 4],
}

impl Rng {
    pub fn new(seed: u64) -> Rng {
        let mut z = seed;
        let mut next = || {
            z = z.wrapping_add(0x9E3779B97F4A7C15);
            let mut x = z;
            x = (x ^ (x >> 30)).wrapping_mul(0xBF58476D1CE4E5B9);
            x = (x ^ (x >> 27)).wrapping_mul(0x94D049BB133111EB);
            x ^ (x >> 31)
        };
        Rng {
            s: [next(), next(), next(), next()],
        }
    }
    #[inline]
    pub fn next(&mut self) -> u64 {
        let r = self.s[1].wrapping_mul(5).rotate_left(7).wrapping_mul(9);
        let t = self.s[1] << 17;
        self.s[2] ^= self.s[0];
        self.s[3] ^= self.s[1];
        self.s[1] ^= self.s[2];
        self.s[0] ^= self.s[3];
        self.s[2] ^= t;
        self.s[3] = self.s[3].rotate_left(45);
        r
    }
    #[inline]
    pub fn below(&mut self, n: u64) -> u64 {
        if n <= 1 {
            0
        } else {
            self.next() % n
        }
    }
    /// true with probability p/256
    #[inline]
    pub fn chance256(&mut self, p: u32) -> bool {
        p > 0 && (self.next() & 0xff) < p as u64
    }
}

pub enum Source {
    Random(Rng),
    /// Lenient replay: picks are taken by position; out-of-range or missing picks become 0.
    Replay { picks: Vec<u16>, pos: usize },
}

// ---------------------------------------------------------------------------------------------
// Memory model state
// ---------------------------------------------------------------------------------------------

#[derive(Clone, Copy, PartialEq, Eq, Debug)]
#[repr(u8)]
pub enum LocClass {
    Unknown = 0,
    Storage = 1,
    FastSlot = 2,
    HelpSlot = 3,
    Control = 4,
    ActiveAddr = 5,
    SpaceOffer = 6,
    Handover = 7,
    InUse = 8,
    ActiveWriters = 9,
    ListHead = 10,
    Strong = 11,
    Harness = 12,
}

impl LocClass {
    pub fn name(self) -> &'static str {
        match self {
            LocClass::Unknown => "unknown",
            LocClass::Storage => "storage",
            LocClass::FastSlot => "fast_slot",
            LocClass::HelpSlot => "help_slot",
            LocClass::Control => "control",
            LocClass::ActiveAddr => "active_addr",
            LocClass::SpaceOffer => "space_offer",
            LocClass::Handover => "handover",
            LocClass::InUse => "in_use",
            LocClass::ActiveWriters => "active_writers",
            LocClass::ListHead => "list_head",
            LocClass::Strong => "strong",
            LocClass::Harness => "harness",
        }
    }
    pub fn from_u8(x: u8) -> LocClass {
        match x {
            1 => LocClass::Storage,
            2 => LocClass::FastSlot,
            3 => LocClass::HelpSlot,
            4 => LocClass::Control,
            5 => LocClass::ActiveAddr,
            6 => LocClass::SpaceOffer,
            7 => LocClass::Handover,
            8 => LocClass::InUse,
            9 => LocClass::ActiveWriters,
            10 => LocClass::ListHead,
            11 => LocClass::Strong,
            12 => LocClass::Harness,
            _ => LocClass::Unknown,
        }
    }
}

#[derive(Clone, Debug)]
pub struct StoreElem {
    pub val: usize,
    pub writer: Tid,
    /// The writer's own clock component at the store (0 for the initial pseudo-store).
    pub ts: u32,
    /// Clock released by this store (zero if nothing is released).
    pub rel: VClock,
    pub sc: bool,
    /// Index+1 of this store's event in the SeqCst order graph (0 = not a SeqCst store).
    pub sc_ev: u32,
    /// SeqCst load events (indices in the graph) that read this store.
    pub sc_readers: Vec<u32>,
    /// Per thread: timestamp of the latest load of that thread which read this store (0 = none).
    pub loads: [u32; MAX_THREADS],
    pub sc_loaded: bool,
    /// Global event number (for the event graph / certificate).
    pub ev: u64,
}

pub struct Loc {
    pub class: LocClass,
    pub sub: u16,
    pub is_ptr: bool,
    pub stores: Vec<StoreElem>,
    /// Number of stores dropped from the front of `stores` (so absolute mo index = dropped + i).
    pub dropped: u64,
    /// SeqCst events (stores, and loads of stores) that fell out of the bounded history: they all
    /// precede, in S, every later SeqCst access to this location.
    pub sc_dropped: Vec<u32>,
}

pub const SC_WORDS: usize = 32;
pub const SC_MAX: usize = SC_WORDS * 64;
type ScSet = [u64; SC_WORDS];

/// The constraints on the single total order S of SeqCst operations, kept as a DAG with
/// predecessor closures: `pred[i]` = every event that must precede event i ([atomics.order]p4:
/// happens-before between SeqCst operations, and coherence-ordered-before between SeqCst
/// operations on one object). S itself is never fixed; a stale SeqCst read is allowed exactly
/// when the edges it implies keep the graph acyclic.
#[derive(Default)]
pub struct ScGraph {
    evs: Vec<(Tid, u32)>,
    pred: Vec<ScSet>,
    by_thread: Vec<Vec<u32>>,
    pub overflow: bool,
}

#[inline]
fn sc_bit(set: &ScSet, i: usize) -> bool {
    set[i / 64] & (1u64 << (i % 64)) != 0
}
#[inline]
fn sc_set(set: &mut ScSet, i: usize) {
    set[i / 64] |= 1u64 << (i % 64);
}
#[inline]
fn sc_or(a: &mut ScSet, b: &ScSet) {
    for w in 0..SC_WORDS {
        a[w] |= b[w];
    }
}

#[derive(Clone, Copy, PartialEq, Eq, Debug)]
#[repr(u8)]
pub enum OpK {
    Load = 0,
    Store = 1,
    Rmw = 2,
    CasOk = 3,
    CasFail = 4,
    Fence = 5,
    NaRead = 6,
    NaWrite = 7,
    /// Harness-level synchronisation (spawn, join, semaphore): release side / acquire side.
    /// `loc` is the channel id; every earlier SyncRel on the same channel happens-before a SyncAcq.
    SyncRel = 8,
    SyncAcq = 9,
}

/// One event of the execution graph (only recorded when `record_events` is on, i.e. in replays).
#[derive(Clone, Debug)]
pub struct Event {
    pub id: u64,
    pub tid: Tid,
    pub kind: OpK,
    pub loc: u32,
    pub class: LocClass,
    pub ord: u8,
    /// For reads: absolute mo index of the store read. For writes: absolute mo index written.
    pub rf_mo: i64,
    pub w_mo: i64,
    pub val: usize,
    /// Value read (reads, RMWs and CASes).
    pub rval: usize,
    pub stale_by: u16,
    pub site: &'static Location<'static>,
    pub opctx: u8,
}

#[derive(Clone, Debug)]
pub struct StaleInfo {
    pub file: &'static str,
    pub line: u32,
    pub class: LocClass,
    pub kind: OpK,
    pub ord: u8,
    pub opctx: u8,
}

// ---------------------------------------------------------------------------------------------
// Threads
// ---------------------------------------------------------------------------------------------

#[derive(Clone, Copy, PartialEq, Eq, Debug)]
pub enum Yield {
    Switch,
    Abort,
}

#[derive(Clone, Copy, PartialEq, Eq, Debug)]
enum TState {
    Runnable,
    BlockedJoin(Tid),
    BlockedSem(usize),
    Finished,
}

type Co = Coroutine<(), Yield, (), DefaultStack>;

pub struct TlsEntry {
    pub key: usize,
    pub val: *mut u8,
    pub drop_fn: unsafe fn(*mut u8),
    /// 0 alive, 1 being destroyed, 2 destroyed
    pub state: u8,
}

struct Thread {
    co: Option<Co>,
    yielder: *const Yielder<(), Yield>,
    state: TState,
    clock: VClock,
    acq_pending: VClock,
    rel_fence: VClock,
    steps: u64,
    op: u8,
    op_start_steps: u64,
    in_op: bool,
    /// API calls nested inside the current one (user code — a destructor — that calls back in).
    op_depth: u32,
    ops_done: u64,
    tls: Vec<TlsEntry>,
    tls_done: bool,
    prio: u64,
    spurious_last: bool,
    joined: bool,
    final_ts: u32,
    inst: u32,
    last_probe: usize,
    /// Not scheduled before the global step count reaches this (fault kind "stall").
    stalled_until: u64,
}

struct Sem {
    count: u64,
    clock: VClock,
}

pub struct ProbeState {
    pub tid: Tid,
    pub start_steps: u64,
    pub op: u8,
}

#[derive(Clone, Debug)]
pub struct Failure {
    /// Oracle code, e.g. "uaf", "double-release", "ledger", "race", "probe-cap", "meter", "panic".
    pub kind: String,
    pub msg: String,
    pub step: u64,
    pub tid: Tid,
}

#[derive(Clone, Debug)]
pub struct Stats {
    pub steps: u64,
    pub decisions: u64,
    pub ctx_switches: u64,
    pub stale_reads: u64,
    pub stale_cas_fail: u64,
    pub spurious_cas: u64,
    pub buggify: [u64; N_BUGGIFY],
    pub addr_reuse: u64,
    pub probes: [u64; N_PROBES],
    pub solo_probes: u64,
    pub stalls: u64,
    pub solo_probe_max_steps: u64,
    pub solo_probe_by_op: [u64; N_OPKINDS],
    pub meter_max: [u64; N_OPKINDS],
    pub meter_cnt: [u64; N_OPKINDS],
    pub threads_spawned: u64,
    pub thread_exits: u64,
    pub tls_gone_ops: u64,
    pub adversary_ops: u64,
    pub races_checked: u64,
    pub max_admissible: u64,
    /// Most simulated threads that existed at once (started and not yet through their
    /// thread-local destructors), main included.
    pub peak_live_threads: u64,
    pub live_threads: u64,
}

impl Default for Stats {
    fn default() -> Self {
        Stats {
            steps: 0,
            decisions: 0,
            ctx_switches: 0,
            stale_reads: 0,
            stale_cas_fail: 0,
            spurious_cas: 0,
            buggify: [0; N_BUGGIFY],
            addr_reuse: 0,
            probes: [0; N_PROBES],
            solo_probes: 0,
            stalls: 0,
            solo_probe_max_steps: 0,
            solo_probe_by_op: [0; N_OPKINDS],
            meter_max: [0; N_OPKINDS],
            meter_cnt: [0; N_OPKINDS],
            threads_spawned: 0,
            thread_exits: 0,
            tls_gone_ops: 0,
            adversary_ops: 0,
            races_checked: 0,
            max_admissible: 0,
            peak_live_threads: 0,
            live_threads: 0,
        }
    }
}

pub struct Outcome {
    pub failure: Option<Failure>,
    pub inconclusive: Option<String>,
    pub trace: Vec<Dec>,
    pub stats: Stats,
    pub fingerprint: u64,
    pub events: Vec<Event>,
    pub stale: Vec<StaleInfo>,
    pub panic_msgs: Vec<String>,
}

pub struct Runtime {
    pub cfg: Config,
    src: Source,
    trace: Vec<Dec>,
    threads: Vec<Thread>,
    current: Tid,
    epoch: u32,
    locs: Vec<Loc>,
    scg: ScGraph,
    sems: Vec<Sem>,
    pub stats: Stats,
    failure: Option<Failure>,
    inconclusive: Option<String>,
    aborting: bool,
    probe: Option<ProbeState>,
    probes_started: u32,
    in_api: u32,
    fingerprint: u64,
    record_events: bool,
    events: Vec<Event>,
    stale: Vec<StaleInfo>,
    event_no: u64,
    pct_points: Vec<u64>,
    pct_low: u64,
    adv_remaining: u32,
    mark_pending: bool,
    panic_msgs: Vec<String>,
    thread_instances: u32,
    quiescent_hook: Option<fn()>,
    event_hook: Option<fn(u32, usize)>,
    node_count_hint: u64,
}

thread_local! {
    static RT: Cell<*mut Runtime> = const { Cell::new(std::ptr::null_mut()) };
    static STACKS: RefCell<Vec<DefaultStack>> = const { RefCell::new(Vec::new()) };
    static EPOCH: Cell<u32> = const { Cell::new(1) };
}

#[inline]
pub(crate) fn rt<'a>() -> Option<&'a mut Runtime> {
    let p = RT.with(|r| r.get());
    if p.is_null() {
        None
    } else {
        Some(unsafe { &mut *p })
    }
}

/// Is a simulated execution in progress on this OS thread?
#[inline]
pub fn active() -> bool {
    RT.with(|r| !r.get().is_null())
}

fn ord_code(o: Ordering) -> u8 {
    match o {
        Ordering::Relaxed => 0,
        Ordering::Acquire => 1,
        Ordering::Release => 2,
        Ordering::AcqRel => 3,
        Ordering::SeqCst => 4,
        _ => 4,
    }
}

pub fn ord_name(c: u8) -> &'static str {
    match c {
        0 => "Relaxed",
        1 => "Acquire",
        2 => "Release",
        3 => "AcqRel",
        _ => "SeqCst",
    }
}

#[inline]
fn is_acq(o: Ordering) -> bool {
    matches!(o, Ordering::Acquire | Ordering::AcqRel | Ordering::SeqCst)
}
#[inline]
fn is_rel(o: Ordering) -> bool {
    matches!(o, Ordering::Release | Ordering::AcqRel | Ordering::SeqCst)
}
#[inline]
fn is_sc(o: Ordering) -> bool {
    matches!(o, Ordering::SeqCst)
}

// ---------------------------------------------------------------------------------------------
// Panic hook: silent inside executions, messages kept for the report.
// ---------------------------------------------------------------------------------------------

pub fn install_panic_hook() {
    static ONCE: std::sync::Once = std::sync::Once::new();
    ONCE.call_once(|| {
        let default = std::panic::take_hook();
        std::panic::set_hook(Box::new(move |info| {
            if let Some(rt) = rt() {
                let msg = if let Some(s) = info.payload().downcast_ref::<&str>() {
                    s.to_string()
                } else if let Some(s) = info.payload().downcast_ref::<String>() {
                    s.clone()
                } else {
                    "<non-string panic payload>".to_string()
                };
                let loc = info
                    .location()
                    .map(|l| format!("{}:{}", l.file(), l.line()))
                    .unwrap_or_default();
                if rt.panic_msgs.len() < 16 {
                    rt.panic_msgs.push(format!("{} @ {}", msg, loc));
                }
                if std::env::var_os("ASIM_DEBUG_PANICS").is_some() {
                    eprintln!("[panic inside execution] {} @ {}", msg, loc);
                }
            } else {
                default(info);
            }
        }));
    });
}

// ---------------------------------------------------------------------------------------------
// Running one execution
// ---------------------------------------------------------------------------------------------

pub struct RunSpec {
    pub cfg: Config,
    pub source: Source,
    pub record_events: bool,
    pub quiescent_hook: Option<fn()>,
    /// Called for every `event(code, arg)` raised by the hooks in the crate under test.
    pub event_hook: Option<fn(u32, usize)>,
}

/// Runs `main` as simulated thread 0 until every simulated thread has finished, a violation is
/// recorded, or the step cap is reached. Returns what happened. Must be called from plain
/// (non-simulated) context.
pub fn run(spec: RunSpec, main: Box<dyn FnOnce()>) -> Outcome {
    assert!(!active(), "nested executions are not supported");
    install_panic_hook();
    let epoch = EPOCH.with(|e| {
        let v = e.get().wrapping_add(1).max(1);
        e.set(v);
        v
    });
    let mut runtime = Box::new(Runtime {
        cfg: spec.cfg,
        src: spec.source,
        trace: Vec::with_capacity(1024),
        threads: Vec::with_capacity(8),
        current: 0,
        epoch,
        locs: Vec::with_capacity(128),
        scg: ScGraph::default(),
        sems: Vec::new(),
        stats: Stats::default(),
        failure: None,
        inconclusive: None,
        aborting: false,
        probe: None,
        probes_started: 0,
        in_api: 0,
        fingerprint: 0xcbf29ce484222325,
        record_events: spec.record_events,
        events: Vec::new(),
        stale: Vec::new(),
        event_no: 0,
        pct_points: Vec::new(),
        pct_low: 0,
        adv_remaining: 0,
        mark_pending: false,
        panic_msgs: Vec::new(),
        thread_instances: 0,
        quiescent_hook: spec.quiescent_hook,
        event_hook: spec.event_hook,
        node_count_hint: 0,
    });
    // PCT change points are drawn up front (only in random mode; replays follow recorded picks).
    if let SchedKind::Pct { depth, est_len } = runtime.cfg.sched.clone() {
        if let Source::Random(rng) = &mut runtime.src {
            for _ in 0..depth {
                runtime.pct_points.push(rng.below(est_len.max(1) as u64));
            }
        }
    }
    let ptr: *mut Runtime = &mut *runtime;
    RT.with(|r| r.set(ptr));

    let t0 = runtime.new_thread(main, None);
    debug_assert_eq!(t0, 0);
    runtime.current = 0;

    // Driver loop.
    loop {
        let rtm = unsafe { &mut *ptr };
        let cur = rtm.current;
        let mut co = rtm.threads[cur].co.take().expect("current thread has a coroutine");
        let res = co.resume(());
        let rtm = unsafe { &mut *ptr };
        match res {
            CoroutineResult::Yield(Yield::Switch) => {
                rtm.threads[cur].co = Some(co);
            }
            CoroutineResult::Yield(Yield::Abort) => {
                rtm.threads[cur].co = Some(co);
                break;
            }
            CoroutineResult::Return(()) => {
                STACKS.with(|s| s.borrow_mut().push(co.into_stack()));
                rtm.finish_thread(cur);
                if rtm.aborting {
                    break;
                }
                match rtm.pick_next(true) {
                    Some(n) => rtm.current = n,
                    None => {
                        if rtm.threads.iter().all(|t| t.state == TState::Finished) {
                            break;
                        }
                        if rtm.inconclusive.is_none() && rtm.failure.is_none() {
                            rtm.inconclusive = Some("harness deadlock: no runnable simulated thread".into());
                        }
                        break;
                    }
                }
            }
        }
    }

    // Tear down whatever is still suspended without unwinding it (an aborted execution may be
    // in an arbitrary state; running destructors there could touch freed simulated objects).
    let rtm = unsafe { &mut *ptr };
    for t in rtm.threads.iter_mut() {
        if let Some(mut co) = t.co.take() {
            if !co.done() {
                if co.started() {
                    unsafe { co.force_reset() };
                } else {
                    // never ran: only the boxed entry closure has to go
                    co.force_unwind();
                }
            }
            STACKS.with(|s| s.borrow_mut().push(co.into_stack()));
        }
        // Thread-local values of an abandoned thread are leaked on purpose.
    }
    RT.with(|r| r.set(std::ptr::null_mut()));
    let mut rtb = runtime;
    rtb.stats.steps = rtb.threads.iter().map(|t| t.steps).sum();
    Outcome {
        failure: rtb.failure.take(),
        inconclusive: rtb.inconclusive.take(),
        trace: std::mem::take(&mut rtb.trace),
        stats: rtb.stats.clone(),
        fingerprint: rtb.fingerprint,
        events: std::mem::take(&mut rtb.events),
        stale: std::mem::take(&mut rtb.stale),
        panic_msgs: std::mem::take(&mut rtb.panic_msgs),
    }
}

struct UnsafeSendBox(Box<dyn FnOnce()>);

impl Runtime {
    fn new_thread(&mut self, f: Box<dyn FnOnce()>, parent: Option<Tid>) -> Tid {
        // Choose an index: recycle a finished+joined thread whose history the parent already
        // knows completely, otherwise a fresh one.
        let mut idx = None;
        if let Some(p) = parent {
            for (i, t) in self.threads.iter().enumerate() {
                if t.state == TState::Finished
                    && t.joined
                    && self.threads[p].clock.get(i) >= t.final_ts
                    && i != 0
                {
                    idx = Some(i);
                    break;
                }
            }
        }
        let tid = match idx {
            Some(i) => i,
            None => {
                if self.threads.len() >= MAX_THREADS {
                    self.inconclusive = Some("too many simulated threads".into());
                    self.aborting = true;
                    // fall through with a dummy slot reuse; caller aborts at next sched point
                    return NO_TID;
                }
                self.threads.len()
            }
        };
        let mut clock = VClock::ZERO;
        let mut base_ts = 0;
        if let Some(p) = parent {
            let pc = &mut self.threads[p].clock;
            pc.0[p] += 1;
            clock = *pc;
            if tid < self.threads.len() {
                base_ts = self.threads[tid].final_ts.max(clock.get(tid));
            }
        }
        clock.0[tid] = base_ts + 1;

        self.thread_instances += 1;
        let inst = self.thread_instances;
        if parent.is_some() {
            self.log_sync(OpK::SyncRel, inst * 2);
        }
        let stack = STACKS
            .with(|s| s.borrow_mut().pop())
            .unwrap_or_else(|| DefaultStack::new(STACK_SIZE).expect("stack allocation"));
        let fb = UnsafeSendBox(f);
        let co: Co = Coroutine::with_stack(stack, move |y: &Yielder<(), Yield>, ()| {
            let fb = fb;
            if let Some(rt) = rt() {
                let me = rt.current;
                rt.threads[me].yielder = y as *const _;
                let inst = rt.threads[me].inst;
                if me != 0 {
                    rt.log_sync(OpK::SyncAcq, inst * 2);
                }
            }
            let r = std::panic::catch_unwind(std::panic::AssertUnwindSafe(fb.0));
            if let Err(e) = r {
                let msg = panic_payload_msg(&e);
                std::mem::forget(e);
                thread_panicked(msg);
            }
            let r = std::panic::catch_unwind(std::panic::AssertUnwindSafe(run_tls_destructors));
            if let Err(e) = r {
                let msg = panic_payload_msg(&e);
                std::mem::forget(e);
                thread_panicked(format!("in thread-local destructor: {}", msg));
            }
        });
        let prio = match &mut self.src {
            Source::Random(rng) => 1_000_000 + rng.below(1_000_000),
            _ => 0,
        };
        let th = Thread {
            co: Some(co),
            yielder: std::ptr::null(),
            state: TState::Runnable,
            clock,
            acq_pending: VClock::ZERO,
            rel_fence: VClock::ZERO,
            steps: 0,
            op: 0,
            op_start_steps: 0,
            in_op: false,
            op_depth: 0,
            ops_done: 0,
            tls: Vec::new(),
            tls_done: false,
            prio,
            spurious_last: false,
            joined: false,
            final_ts: 0,
            inst,
            last_probe: usize::MAX,
            stalled_until: 0,
        };
        if tid < self.threads.len() {
            self.threads[tid] = th;
        } else {
            self.threads.push(th);
        }
        self.stats.threads_spawned += 1;
        self.stats.live_threads += 1;
        if self.stats.live_threads > self.stats.peak_live_threads {
            self.stats.peak_live_threads = self.stats.live_threads;
        }
        tid
    }

    fn finish_thread(&mut self, t: Tid) {
        let th = &mut self.threads[t];
        th.state = TState::Finished;
        th.clock.0[t] += 1;
        th.final_ts = th.clock.0[t];
        let inst_end = th.inst * 2 + 1;
        let was_in_op = th.in_op;
        self.log_sync_as(t, OpK::SyncRel, inst_end);
        let th = &mut self.threads[t];
        if was_in_op {
            th.in_op = false;
            self.in_api = self.in_api.saturating_sub(1);
        }
        self.stats.thread_exits += 1;
        self.stats.live_threads = self.stats.live_threads.saturating_sub(1);
        let fin_clock = self.threads[t].clock;
        for i in 0..self.threads.len() {
            if self.threads[i].state == TState::BlockedJoin(t) {
                self.threads[i].state = TState::Runnable;
                self.threads[i].clock.join(&fin_clock);
                self.threads[t].joined = true;
                let ch = self.threads[t].inst * 2 + 1;
                self.log_sync_as(i, OpK::SyncAcq, ch);
            }
        }
        if let Some(p) = &self.probe {
            if p.tid == t {
                self.probe = None;
            }
        }
    }

    fn record_failure(&mut self, kind: &str, msg: String) {
        if self.failure.is_none() && self.inconclusive.is_none() {
            self.failure = Some(Failure {
                kind: kind.to_string(),
                msg,
                step: self.stats.decisions,
                tid: self.current,
            });
        }
        self.aborting = true;
    }

    #[inline]
    fn fp(&mut self, x: u64) {
        self.fingerprint = (self.fingerprint ^ x).wrapping_mul(0x100000001b3);
    }

    /// One decision with `n` alternatives; 0 is always the benign default.
    #[inline]
    fn decide(&mut self, kind: DecKind, n: usize, gen: impl FnOnce(&mut Rng, &mut Runtime) -> usize) -> usize {
        if n <= 1 {
            return 0;
        }
        self.stats.decisions += 1;
        let mut src = std::mem::replace(&mut self.src, Source::Replay { picks: Vec::new(), pos: 0 });
        let pick = match &mut src {
            Source::Random(rng) => gen(rng, self).min(n - 1),
            Source::Replay { picks, pos } => {
                let p = picks.get(*pos).copied().unwrap_or(0) as usize;
                *pos += 1;
                if p < n {
                    p
                } else {
                    0
                }
            }
        };
        self.src = src;
        self.trace.push(Dec {
            kind: kind as u8,
            pick: pick as u16,
        });
        pick
    }

    fn runnable(&self, t: Tid) -> bool {
        self.threads[t].state == TState::Runnable && self.threads[t].stalled_until <= self.stats.steps
    }

    /// Chooses the thread to run next. `cur_gone`: the current thread cannot continue.
    fn pick_next(&mut self, cur_gone: bool) -> Option<Tid> {
        let cur = self.current;
        // Fault kind "stall": right after a step that created in-flight state the thread may be
        // taken off the processor for a long time (a decision like any other; pick 0 = no stall).
        let stall_p = if self.mark_pending { self.cfg.p_stall_after_mark * 16 } else { 0 } + self.cfg.p_stall_any;
        if stall_p > 0 && !cur_gone && self.probe.is_none() && self.runnable(cur) {
            let p = stall_p as u64;
            let k = self.decide(DecKind::Stall, 4, |rng, _| if (rng.next() & 0xfff) < p { 1 + rng.below(3) as usize } else { 0 });
            if k > 0 {
                self.mark_pending = false;
                self.stats.stalls += 1;
                self.threads[cur].stalled_until = self.stats.steps + [0, 30, 150, 600][k];
            }
        }
        let cur_ok = !cur_gone && self.runnable(cur);
        // Solo probe: only the probed thread runs.
        if let Some(p) = &self.probe {
            let pt = p.tid;
            if self.runnable(pt) {
                return Some(pt);
            }
            // The probed thread blocked at harness level: the probe says nothing.
            self.probe = None;
        }
        let mut opts: [Tid; MAX_THREADS] = [0; MAX_THREADS];
        let mut n = 0;
        if cur_ok {
            opts[0] = cur;
            n = 1;
        }
        for t in 0..self.threads.len() {
            if t != cur || !cur_ok {
                if self.runnable(t) && !(t == cur && cur_ok) {
                    opts[n] = t;
                    n += 1;
                }
            }
        }
        if n == 0 {
            // Only stalled threads left: the stall ends (a stall must not turn into a deadlock).
            let steps = self.stats.steps;
            let mut woke = false;
            for t in 0..self.threads.len() {
                if self.threads[t].state == TState::Runnable && self.threads[t].stalled_until > steps {
                    self.threads[t].stalled_until = 0;
                    woke = true;
                }
            }
            if woke {
                return self.pick_next(cur_gone);
            }
            return None;
        }
        if n == 1 {
            return Some(opts[0]);
        }
        let optsc = opts;
        let pick = self.decide(DecKind::Sched, n, |rng, me| me.sched_policy(rng, &optsc[..n], cur_ok));
        self.mark_pending = false;
        let next = opts[pick];
        if next != cur {
            self.stats.ctx_switches += 1;
        }
        self.fp(0x5000 + next as u64);
        Some(next)
    }

    fn sched_policy(&mut self, rng: &mut Rng, opts: &[Tid], cur_ok: bool) -> usize {
        let n = opts.len();
        if self.mark_pending {
            // (cleared by the caller, outside the generator, so that record and replay agree)
            if cur_ok && rng.chance256(self.cfg.p_switch_after_mark) {
                return 1 + rng.below(n as u64 - 1) as usize;
            }
        }
        match self.cfg.sched.clone() {
            SchedKind::Random => rng.below(n as u64) as usize,
            SchedKind::Burst { stay } => {
                if cur_ok {
                    if rng.chance256(stay) {
                        0
                    } else {
                        1 + rng.below(n as u64 - 1) as usize
                    }
                } else {
                    rng.below(n as u64) as usize
                }
            }
            SchedKind::Pct { .. } => {
                let step = self.stats.decisions;
                if cur_ok && self.pct_points.iter().any(|p| *p == step) {
                    // Demote the current thread below everything seen so far.
                    self.pct_low += 1;
                    let cur = opts[0];
                    self.threads[cur].prio = 1000 - self.pct_low.min(999);
                }
                let mut best = 0;
                for i in 1..n {
                    if self.threads[opts[i]].prio > self.threads[opts[best]].prio {
                        best = i;
                    }
                }
                best
            }
            SchedKind::Adversary { victim, k } => {
                // Threads other than the victim and main (0) are the adversaries.
                let cur = self.current;
                let adv_idx: Vec<usize> = (0..n).filter(|i| opts[*i] != victim && opts[*i] != 0).collect();
                let vic_idx = (0..n).find(|i| opts[*i] == victim);
                if cur_ok && cur == victim {
                    if self.threads[victim].in_op && !adv_idx.is_empty() {
                        self.adv_remaining = k;
                        return adv_idx[rng.below(adv_idx.len() as u64) as usize];
                    }
                    return 0;
                }
                if self.adv_remaining > 0 && !adv_idx.is_empty() {
                    // keep running adversaries (prefer the current one)
                    if cur_ok && cur != 0 {
                        return 0;
                    }
                    return adv_idx[rng.below(adv_idx.len() as u64) as usize];
                }
                if let Some(v) = vic_idx {
                    if self.threads[victim].in_op {
                        return v;
                    }
                }
                rng.below(n as u64) as usize
            }
        }
    }

    fn probe_cap(&self) -> u64 {
        self.cfg.probe_cap_base + self.cfg.probe_cap_per_node * self.node_count_hint.max(self.threads.len() as u64)
    }
}

fn panic_payload_msg(e: &Box<dyn std::any::Any + Send>) -> String {
    if let Some(s) = e.downcast_ref::<&str>() {
        s.to_string()
    } else if let Some(s) = e.downcast_ref::<String>() {
        s.clone()
    } else {
        "<non-string panic payload>".to_string()
    }
}

fn thread_panicked(msg: String) {
    if let Some(rt) = rt() {
        let t = rt.current;
        rt.record_failure("thread-panic", format!("simulated thread {} panicked: {}", t, msg));
    }
}

fn run_tls_destructors() {
    // Thread-exit clean-up runs library code (the node goes to cooldown): the system is not
    // quiescent while it is in progress.
    if let Some(rt) = rt() {
        rt.in_api += 1;
    }
    run_tls_destructors_inner();
    if let Some(rt) = rt() {
        rt.in_api = rt.in_api.saturating_sub(1);
    }
}

fn run_tls_destructors_inner() {
    loop {
        let Some(rt) = rt() else { return };
        if rt.aborting {
            return;
        }
        let cur = rt.current;
        let lifo = rt.cfg.tls_lifo;
        let tls = &mut rt.threads[cur].tls;
        let idx = if lifo {
            tls.iter().rposition(|e| e.state == 0)
        } else {
            tls.iter().position(|e| e.state == 0)
        };
        let Some(i) = idx else {
            rt.threads[cur].tls_done = true;
            return;
        };
        tls[i].state = 1;
        let (val, drop_fn) = (tls[i].val, tls[i].drop_fn);
        // The destructor is arbitrary code with scheduling points: no borrow may be live here.
        unsafe { drop_fn(val) };
        if let Some(rt2) = self::rt() {
            let cur = rt2.current;
            if let Some(e) = rt2.threads[cur].tls.get_mut(i) {
                e.state = 2;
            }
        }
    }
}

// ---------------------------------------------------------------------------------------------
// Public API used from inside simulated threads
// ---------------------------------------------------------------------------------------------

#[inline]
fn suspend(y: Yield) {
    let yl = match rt() {
        Some(rt) => rt.threads[rt.current].yielder,
        None => return,
    };
    debug_assert!(!yl.is_null());
    unsafe { (*yl).suspend(y) };
}

/// Hands the (single) OS thread over to simulated thread `n`; returns when the calling
/// simulated thread is scheduled again.
#[inline]
fn switch_to(n: Tid) {
    let yl = match rt() {
        Some(rt) => {
            let yl = rt.threads[rt.current].yielder;
            rt.current = n;
            yl
        }
        None => return,
    };
    debug_assert!(!yl.is_null());
    unsafe { (*yl).suspend(Yield::Switch) };
}

/// Records a violation and ends the execution. Returns only if the calling thread is currently
/// unwinding (the execution then ends at the next scheduling point after the unwind is caught);
/// callers must be prepared for that and return a harmless dummy.
pub fn fail(kind: &str, msg: String) {
    let Some(rt) = rt() else {
        panic!("verif_rt::fail outside execution: {}: {}", kind, msg);
    };
    rt.record_failure(kind, msg);
    if !std::thread::panicking() {
        suspend(Yield::Abort);
    }
}

/// Ends the execution without a verdict.
pub fn give_up(why: &str) {
    let Some(rt) = rt() else { return };
    if rt.failure.is_none() && rt.inconclusive.is_none() {
        rt.inconclusive = Some(why.to_string());
    }
    rt.aborting = true;
    if !std::thread::panicking() {
        suspend(Yield::Abort);
    }
}

pub fn is_aborting() -> bool {
    rt().map(|r| r.aborting).unwrap_or(false)
}

/// A scheduling point. Every shim atomic operation starts with one.
#[inline]
pub fn sched_point() {
    let Some(rt) = rt() else { return };
    if rt.aborting {
        if !std::thread::panicking() {
            suspend(Yield::Abort);
        }
        return;
    }
    if std::thread::panicking() {
        // No context switches while a simulated thread unwinds: the panic bookkeeping of the
        // one OS thread underneath must not be interleaved with another simulated thread.
        return;
    }
    let cur = rt.current;
    rt.threads[cur].steps += 1;
    let total: u64 = rt.stats.decisions + rt.threads[cur].steps;
    let _ = total;
    rt.stats.steps += 1;
    if rt.stats.steps > rt.cfg.max_steps {
        if rt.inconclusive.is_none() && rt.failure.is_none() {
            rt.inconclusive = Some("step cap".into());
        }
        rt.aborting = true;
        suspend(Yield::Abort);
        return;
    }
    // Meter: bounded own steps of wait-free operations under any schedule.
    if rt.threads[cur].in_op {
        let op = rt.threads[cur].op;
        let used = rt.threads[cur].steps - rt.threads[cur].op_start_steps;
        if rt.cfg.meter_ops & (1 << op) != 0 && used > rt.cfg.meter_bound {
            let b = rt.cfg.meter_bound;
            rt.record_failure(
                "meter",
                format!("operation kind {} on thread {} exceeded {} own steps", op, cur, b),
            );
            suspend(Yield::Abort);
            return;
        }
    }
    // Solo probe handling.
    if let Some(p) = &rt.probe {
        if p.tid == cur {
            let used = rt.threads[cur].steps - p.start_steps;
            if used > rt.probe_cap() {
                let (op, cap) = (p.op, rt.probe_cap());
                rt.record_failure(
                    "probe-cap",
                    format!(
                        "operation kind {} on thread {} did not complete within {} own steps while running alone",
                        op, cur, cap
                    ),
                );
                suspend(Yield::Abort);
            }
            return;
        }
    } else if rt.cfg.probe_rate > 0
        && rt.probes_started < rt.cfg.probe_max
        && rt.threads[cur].in_op
        && rt.cfg.probe_ops & (1 << rt.threads[cur].op) != 0
    {
        let rate = rt.cfg.probe_rate;
        let start = rt.decide(DecKind::Probe, 2, |rng, _| ((rng.next() & 0xfff) < rate as u64) as usize);
        if start == 1 {
            rt.probes_started += 1;
            rt.stats.solo_probes += 1;
            let op = rt.threads[cur].op;
            rt.stats.solo_probe_by_op[op as usize % N_OPKINDS] += 1;
            rt.probe = Some(ProbeState {
                tid: cur,
                start_steps: rt.threads[cur].steps,
                op,
            });
            return;
        }
    }
    match rt.pick_next(false) {
        Some(n) if n != cur => {
            switch_to(n);
        }
        _ => {}
    }
}

pub fn current() -> Tid {
    rt().map(|r| r.current).unwrap_or(0)
}

pub fn global_step() -> u64 {
    rt().map(|r| r.stats.steps).unwrap_or(0)
}

pub fn clock_of_current() -> VClock {
    match rt() {
        Some(r) => r.threads[r.current].clock,
        None => VClock::ZERO,
    }
}

pub fn my_steps() -> u64 {
    match rt() {
        Some(r) => r.threads[r.current].steps,
        None => 0,
    }
}

pub fn spawn(f: Box<dyn FnOnce()>) -> Tid {
    sched_point();
    let rt = rt().expect("spawn outside execution");
    let cur = rt.current;
    let t = rt.new_thread(f, Some(cur));
    if t == NO_TID {
        suspend(Yield::Abort);
    }
    t
}

pub fn join(t: Tid) {
    sched_point();
    loop {
        let rt = rt().expect("join outside execution");
        let cur = rt.current;
        if rt.threads[t].state == TState::Finished {
            let c = rt.threads[t].clock;
            rt.threads[cur].clock.join(&c);
            rt.threads[t].joined = true;
            let ch = rt.threads[t].inst * 2 + 1;
            rt.log_sync(OpK::SyncAcq, ch);
            return;
        }
        rt.threads[cur].state = TState::BlockedJoin(t);
        match rt.pick_next(true) {
            Some(n) => {
                switch_to(n);
            }
            None => {
                if rt.inconclusive.is_none() && rt.failure.is_none() {
                    rt.inconclusive = Some(format!("harness deadlock: thread {} joins {}", cur, t));
                }
                rt.aborting = true;
                suspend(Yield::Abort);
                return;
            }
        }
    }
}

pub fn sem_new() -> usize {
    let rt = rt().expect("sem_new outside execution");
    rt.sems.push(Sem {
        count: 0,
        clock: VClock::ZERO,
    });
    rt.sems.len() - 1
}

/// Post: a release-like harness synchronisation (what a channel send or a mutex unlock gives).
pub fn sem_post(s: usize) {
    sched_point();
    sem_post_now(s);
}

/// The post itself, without a preceding scheduling point: for callers that must publish some
/// harness state and the post as one indivisible step.
pub fn sem_post_now(s: usize) {
    let rt = rt().expect("sem_post outside execution");
    let cur = rt.current;
    rt.threads[cur].clock.0[cur] += 1;
    let c = rt.threads[cur].clock;
    rt.sems[s].clock.join(&c);
    rt.sems[s].count += 1;
    rt.log_sync(OpK::SyncRel, 1_000_000 + s as u32);
    for i in 0..rt.threads.len() {
        if rt.threads[i].state == TState::BlockedSem(s) {
            rt.threads[i].state = TState::Runnable;
        }
    }
}

/// Wait: blocks until a post is available, then acquires everything posted so far.
pub fn sem_wait(s: usize) {
    sched_point();
    loop {
        let rt = rt().expect("sem_wait outside execution");
        let cur = rt.current;
        if rt.sems[s].count > 0 {
            rt.sems[s].count -= 1;
            let c = rt.sems[s].clock;
            rt.threads[cur].clock.join(&c);
            rt.log_sync(OpK::SyncAcq, 1_000_000 + s as u32);
            return;
        }
        rt.threads[cur].state = TState::BlockedSem(s);
        match rt.pick_next(true) {
            Some(n) => {
                switch_to(n);
            }
            None => {
                if rt.inconclusive.is_none() && rt.failure.is_none() {
                    rt.inconclusive = Some(format!("harness deadlock: thread {} waits on semaphore {}", cur, s));
                }
                rt.aborting = true;
                suspend(Yield::Abort);
                return;
            }
        }
    }
}

/// Release half of a harness hand-over (like the Release decrement of an `Arc` count):
/// publishes the caller's history on the channel without waking or counting anything.
pub fn chan_release(s: usize) {
    sched_point();
    let rt = rt().expect("chan_release outside execution");
    let cur = rt.current;
    rt.threads[cur].clock.0[cur] += 1;
    let c = rt.threads[cur].clock;
    rt.sems[s].clock.join(&c);
    rt.log_sync(OpK::SyncRel, 1_000_000 + s as u32);
}

/// Acquire half: everything released on the channel so far happens-before the caller.
pub fn chan_acquire(s: usize) {
    sched_point();
    let rt = rt().expect("chan_acquire outside execution");
    let cur = rt.current;
    let c = rt.sems[s].clock;
    rt.threads[cur].clock.join(&c);
    rt.log_sync(OpK::SyncAcq, 1_000_000 + s as u32);
}

pub fn sem_try_wait(s: usize) -> bool {
    sched_point();
    let rt = rt().expect("sem_try_wait outside execution");
    let cur = rt.current;
    if rt.sems[s].count > 0 {
        rt.sems[s].count -= 1;
        let c = rt.sems[s].clock;
        rt.threads[cur].clock.join(&c);
        rt.log_sync(OpK::SyncAcq, 1_000_000 + s as u32);
        true
    } else {
        false
    }
}

/// Marks the start of a public API call of kind `op` (< 32) on the current thread.
pub fn op_begin(op: u8) {
    let Some(rt) = rt() else { return };
    let cur = rt.current;
    let th = &mut rt.threads[cur];
    if !th.in_op {
        th.in_op = true;
        th.op = op;
        th.op_start_steps = th.steps;
        rt.in_api += 1;
    } else {
        th.op_depth += 1;
    }
}

/// Marks the end of the API call; returns the number of own steps it took.
pub fn op_end() -> u64 {
    let Some(rt) = rt() else { return 0 };
    let cur = rt.current;
    let th = &mut rt.threads[cur];
    if !th.in_op {
        return 0;
    }
    if th.op_depth > 0 {
        // the end of a nested call: the outer one is still in progress
        th.op_depth -= 1;
        return 0;
    }
    th.in_op = false;
    th.ops_done += 1;
    let used = th.steps - th.op_start_steps;
    let op = th.op as usize % N_OPKINDS;
    rt.in_api -= 1;
    if used > rt.stats.meter_max[op] {
        rt.stats.meter_max[op] = used;
    }
    rt.stats.meter_cnt[op] += 1;
    if let Some(p) = &rt.probe {
        if p.tid == cur {
            let s = rt.threads[cur].steps - p.start_steps;
            if s > rt.stats.solo_probe_max_steps {
                rt.stats.solo_probe_max_steps = s;
            }
            rt.probe = None;
        }
    }
    if let SchedKind::Adversary { victim, .. } = rt.cfg.sched {
        if cur != victim && cur != 0 && rt.adv_remaining > 0 {
            rt.adv_remaining -= 1;
            rt.stats.adversary_ops += 1;
        }
    }
    if rt.in_api == 0 && !rt.aborting && !std::thread::panicking() {
        if let Some(h) = rt.quiescent_hook {
            h();
        }
    }
    used
}

/// The reach probe the current thread passed most recently (usize::MAX if none), and the kind
/// of the operation it is in (255 if none).
pub fn last_probe_and_op() -> (usize, u8) {
    match rt() {
        Some(r) => {
            let t = &r.threads[r.current];
            (t.last_probe, if t.in_op { t.op } else { 255 })
        }
        None => (usize::MAX, 255),
    }
}

pub fn peak_live_threads() -> u64 {
    rt().map(|r| r.stats.peak_live_threads).unwrap_or(0)
}

pub fn threads_in_api() -> u32 {
    rt().map(|r| r.in_api).unwrap_or(0)
}

pub fn in_solo_probe() -> bool {
    rt().map(|r| r.probe.is_some()).unwrap_or(false)
}

pub fn set_node_count_hint(n: u64) {
    if let Some(rt) = rt() {
        rt.node_count_hint = n;
    }
}

/// Reach probe: counts that a branch was executed. `mark` says the step created in-flight
/// state, so the scheduler may want to switch right after it.
#[inline]
pub fn probe(id: usize, mark: bool) {
    if let Some(rt) = rt() {
        rt.stats.probes[id % N_PROBES] += 1;
        let cur = rt.current;
        rt.threads[cur].last_probe = id;
        if mark {
            rt.mark_pending = true;
        }
    }
}

/// Reach probe that also carries an argument (e.g. a node address) to the harness.
#[inline]
pub fn event(id: usize, arg: usize) {
    if let Some(rt) = rt() {
        rt.stats.probes[id % N_PROBES] += 1;
        let cur = rt.current;
        rt.threads[cur].last_probe = id;
        if rt.aborting {
            return;
        }
        if let Some(h) = rt.event_hook {
            h(id as u32, arg);
        }
    }
}

/// Cooperative fault point: returns true when the simulator decides that the unusual-but-legal
/// thing should happen here. Always false outside an execution.
#[inline]
pub fn buggify(site: usize) -> bool {
    let Some(rt) = rt() else { return false };
    if rt.aborting || rt.probe.is_some() {
        return false;
    }
    let p = rt.cfg.p_buggify[site % N_BUGGIFY];
    if p == 0 {
        return false;
    }
    let r = rt.decide(DecKind::Buggify, 2, |rng, _| rng.chance256(p) as usize) == 1;
    if r {
        rt.stats.buggify[site % N_BUGGIFY] += 1;
    }
    r
}

/// A harness-level decision with `n` alternatives (0 is the default), weight of non-default
/// alternatives `p`/256 in total.
pub fn harness_choice(n: usize, p: u32) -> usize {
    let Some(rt) = rt() else { return 0 };
    if rt.aborting {
        return 0;
    }
    rt.decide(DecKind::Harness, n, |rng, _| {
        if rng.chance256(p) {
            1 + rng.below(n as u64 - 1) as usize
        } else {
            0
        }
    })
}

/// Address-reuse decision for the arena: returns k in 0..=n_free (0 = fresh address).
pub fn reuse_choice(n_free: usize) -> usize {
    let Some(rt) = rt() else { return 0 };
    if rt.aborting || n_free == 0 {
        return 0;
    }
    let p = rt.cfg.p_reuse;
    if p == 0 {
        return 0;
    }
    let k = rt.decide(DecKind::Reuse, n_free + 1, |rng, _| {
        if rng.chance256(p) {
            1 + rng.below(n_free as u64) as usize
        } else {
            0
        }
    });
    if k > 0 {
        rt.stats.addr_reuse += 1;
    }
    k
}

pub fn note_tls_gone() {
    if let Some(rt) = rt() {
        rt.stats.tls_gone_ops += 1;
    }
}

// ---------------------------------------------------------------------------------------------
// Thread-local storage plumbing (used by tls.rs)
// ---------------------------------------------------------------------------------------------

pub(crate) enum TlsLookup {
    Found(*mut u8),
    Destroyed,
    Missing,
    NoRuntime,
}

pub(crate) fn tls_lookup(key: usize) -> TlsLookup {
    let Some(rt) = rt() else {
        return TlsLookup::NoRuntime;
    };
    let cur = rt.current;
    for e in rt.threads[cur].tls.iter() {
        if e.key == key {
            return if e.state == 0 {
                TlsLookup::Found(e.val)
            } else {
                TlsLookup::Destroyed
            };
        }
    }
    TlsLookup::Missing
}

pub(crate) fn tls_insert(key: usize, val: *mut u8, drop_fn: unsafe fn(*mut u8)) {
    let rt = rt().expect("tls_insert outside execution");
    let cur = rt.current;
    rt.threads[cur].tls.push(TlsEntry {
        key,
        val,
        drop_fn,
        state: 0,
    });
}

// ---------------------------------------------------------------------------------------------
// Memory model
// ---------------------------------------------------------------------------------------------

/// Per-atomic metadata word: (epoch << 32) | (index + 1). A word from an older execution is
/// simply re-registered, so statics and leaked nodes can survive between executions.
/// `hint` carries a class label that may have been attached before the first use.
#[inline]
fn loc_index(rt: &mut Runtime, meta: &std::sync::atomic::AtomicU64, hint: u32, cur_val: usize, is_ptr: bool) -> usize {
    let m = meta.load(Ordering::Relaxed);
    if (m >> 32) as u32 == rt.epoch {
        let idx = (m & 0xffff_ffff) as usize;
        if idx >= 1 && idx <= rt.locs.len() {
            return idx - 1;
        }
    }
    let mut class = LocClass::from_u8((hint & 0xff) as u8);
    if class == LocClass::Unknown && is_ptr {
        // The only unlabelled pointer-typed atomics of the crate are the containers' storage.
        class = LocClass::Storage;
    }
    rt.locs.push(Loc {
        class,
        sub: (hint >> 8) as u16,
        is_ptr,
        stores: vec![StoreElem {
            val: cur_val,
            writer: NO_TID,
            ts: 0,
            rel: VClock::ZERO,
            sc: false,
            sc_ev: 0,
            sc_readers: Vec::new(),
            loads: [0; MAX_THREADS],
            sc_loaded: false,
            ev: 0,
        }],
        dropped: 0,
        sc_dropped: Vec::new(),
    });
    let idx = rt.locs.len();
    meta.store(((rt.epoch as u64) << 32) | idx as u64, Ordering::Relaxed);
    idx - 1
}

/// Forget the metadata of a location (used by `get_mut`: the caller has exclusive access and
/// may write through the returned reference; the next atomic access re-registers the location
/// with whatever value is there then).
pub fn forget(meta: &std::sync::atomic::AtomicU64) {
    meta.store(0, Ordering::Relaxed);
}

struct Pick {
    idx: usize,
    stale_by: usize,
    /// For a SeqCst load in weak mode: (event index, happens-before closure, closure to commit).
    sc: Option<(usize, ScSet, ScSet)>,
}

impl Runtime {
    #[inline]
    fn tick(&mut self) -> (Tid, u32) {
        let t = self.current;
        let c = &mut self.threads[t].clock;
        c.0[t] += 1;
        (t, c.0[t])
    }

    /// Chooses the store a load by the current thread reads, by the rules of DESIGN.md 2.3.
    fn choose_store(&mut self, li: usize, sc_load: bool, allow_stale: bool) -> Pick {
        let t = self.current;
        let clock = self.threads[t].clock;
        let len = self.locs[li].stores.len();
        if self.cfg.mode == MemMode::Sc {
            return Pick {
                idx: len - 1,
                stale_by: 0,
                sc: None,
            };
        }
        // SeqCst load in weak mode: an event in the S graph. What happens-before it depends on the
        // store it reads (a SeqCst load acquires), so the closure is computed per candidate.
        let sc_ctx: Option<(usize, ScSet)> = if sc_load {
            self.sc_alloc().map(|k| (k, [0u64; SC_WORDS]))
        } else {
            None
        };
        let fresh_only = !allow_stale || len == 1 || self.probe.is_some();
        // Walk from the newest store towards older ones; stop after the first store that the
        // coherence rules make the oldest admissible one. SeqCst loads additionally need the S
        // graph to stay acyclic (checked per candidate).
        let mut cands: [usize; 16] = [0; 16];
        let mut pcs: Vec<ScSet> = Vec::new();
        let mut n_adm = 0;
        for i in (0..len).rev() {
            let mut ok = true;
            if let Some((k, _)) = &sc_ctx {
                let mut c = clock;
                c.join(&self.locs[li].stores[i].rel);
                let hb_pc = self.sc_closure_for(&c, *k);
                match self.sc_read_admissible(li, i, &hb_pc) {
                    Some(pc) => pcs.push(pc),
                    None => ok = false,
                }
            }
            if ok && n_adm < 16 {
                cands[n_adm] = i;
                n_adm += 1;
            }
            if fresh_only {
                break;
            }
            let s = &self.locs[li].stores[i];
            if s.writer == NO_TID || s.ts <= clock.get(s.writer) {
                break; // the store happens-before this load (CoWR)
            }
            let mut blocked = false;
            for u in 0..MAX_THREADS {
                let l = s.loads[u];
                if l != 0 && l <= clock.get(u) {
                    blocked = true; // a load of this store happens-before this load (CoRR)
                    break;
                }
            }
            if blocked {
                break;
            }
            if sc_load && sc_ctx.is_none() && (s.sc || s.sc_loaded) {
                break; // S graph unavailable (overflow): S = execution order
            }
        }
        if n_adm == 0 {
            // cannot happen (the latest store is always admissible); be safe
            cands[0] = len - 1;
            n_adm = 1;
            if let Some((k, _)) = &sc_ctx {
                let mut c = clock;
                c.join(&self.locs[li].stores[len - 1].rel);
                let mut pc = self.sc_closure_for(&c, *k);
                self.sc_collect_preds(li, len - 1, &mut pc);
                pcs.clear();
                pcs.push(pc);
            }
        }
        if n_adm as u64 > self.stats.max_admissible {
            self.stats.max_admissible = n_adm as u64;
        }
        let p_fresh = self.cfg.p_fresh;
        let k = self.decide(DecKind::Read, n_adm, |rng, _| {
            if rng.chance256(p_fresh) {
                0
            } else {
                1 + rng.below(n_adm as u64 - 1) as usize
            }
        });
        let idx = cands[k];
        Pick {
            idx,
            stale_by: len - 1 - idx,
            sc: sc_ctx.map(|(ev, hb_pc)| (ev, hb_pc, pcs[k])),
        }
    }

    /// A SeqCst load of store `idx` outside `choose_store` (spurious CAS failure).
    fn sc_simple_read(&mut self, li: usize, idx: usize) {
        if self.cfg.mode != MemMode::Weak {
            return;
        }
        if let Some(k) = self.sc_alloc() {
            let mut c = self.threads[self.current].clock;
            c.join(&self.locs[li].stores[idx].rel);
            let mut pc = self.sc_closure_for(&c, k);
            self.sc_collect_preds(li, idx, &mut pc);
            self.sc_commit_read(li, idx, k, pc);
        }
    }

    /// Finalises the read of a pick (commits the S edges of a SeqCst load). `idx` may differ from
    /// the picked one when the caller had to fall back to the latest store.
    fn finish_read(&mut self, li: usize, idx: usize, pick: &Pick) {
        if let Some((k, hb_pc, pc)) = &pick.sc {
            let _ = hb_pc;
            if idx == pick.idx {
                self.sc_commit_read(li, idx, *k, *pc);
            } else {
                let mut c = self.threads[self.current].clock;
                c.join(&self.locs[li].stores[idx].rel);
                let mut p = self.sc_closure_for(&c, *k);
                self.sc_collect_preds(li, idx, &mut p);
                self.sc_commit_read(li, idx, *k, p);
            }
        }
    }

    fn note_stale(&mut self, li: usize, kind: OpK, ord: Ordering, site: &'static Location<'static>) {
        let t = self.current;
        let opctx = if self.threads[t].in_op { self.threads[t].op } else { 255 };
        if self.stale.len() < 256 {
            self.stale.push(StaleInfo {
                file: site.file(),
                line: site.line(),
                class: self.locs[li].class,
                kind,
                ord: ord_code(ord),
                opctx,
            });
        }
    }

    #[allow(clippy::too_many_arguments)]
    fn log_event(
        &mut self,
        kind: OpK,
        li: usize,
        ord: Ordering,
        rf_mo: i64,
        w_mo: i64,
        val: usize,
        rval: usize,
        stale_by: usize,
        site: &'static Location<'static>,
    ) {
        self.event_no += 1;
        let t = self.current;
        let class = if li == usize::MAX { LocClass::Unknown } else { self.locs[li].class };
        self.fp(((t as u64) << 20) ^ ((kind as u64) << 16) ^ ((class as u64) << 8) ^ stale_by as u64);
        if self.record_events {
            let opctx = if self.threads[t].in_op { self.threads[t].op } else { 255 };
            self.events.push(Event {
                id: self.event_no,
                tid: t,
                kind,
                loc: li as u32,
                class,
                ord: ord_code(ord),
                rf_mo,
                w_mo,
                val,
                rval,
                stale_by: stale_by as u16,
                site,
                opctx,
            });
        }
    }

    fn log_sync(&mut self, kind: OpK, chan: u32) {
        let t = self.current;
        self.log_sync_as(t, kind, chan);
    }

    fn log_sync_as(&mut self, t: Tid, kind: OpK, chan: u32) {
        if !self.record_events {
            return;
        }
        self.event_no += 1;
        self.events.push(Event {
            id: self.event_no,
            tid: t,
            kind,
            loc: chan,
            class: LocClass::Harness,
            ord: 4,
            rf_mo: -1,
            w_mo: -1,
            val: 0,
            rval: 0,
            stale_by: 0,
            site: Location::caller(),
            opctx: 255,
        });
    }

    fn do_read_sync(&mut self, t: Tid, rel: &VClock, ord: Ordering) {
        if is_acq(ord) {
            self.threads[t].clock.join(rel);
        } else {
            self.threads[t].acq_pending.join(rel);
        }
    }

    fn push_store(&mut self, li: usize, val: usize, t: Tid, ts: u32, rel: VClock, sc: bool) -> i64 {
        self.push_store_ev(li, val, t, ts, rel, sc, None)
    }

    /// `reuse`: an S-graph event already created for this operation (the load half of a
    /// compare-exchange that turned out to succeed).
    #[allow(clippy::too_many_arguments)]
    fn push_store_ev(&mut self, li: usize, val: usize, t: Tid, ts: u32, rel: VClock, sc: bool, reuse: Option<usize>) -> i64 {
        let ev = self.event_no + 1;
        let hist = self.cfg.history.max(1);
        // SeqCst store: one event in the S graph, after every earlier SeqCst access to the
        // location (mo, and reads-before for the loads of earlier stores).
        let sc_ev = if sc && self.cfg.mode == MemMode::Weak {
            let ev = match reuse {
                Some(k) => {
                    let clock = self.threads[self.current].clock;
                    Some((k, self.sc_closure_for(&clock, k)))
                }
                None => self.sc_new_event(),
            };
            match ev {
                Some((k, mut pc)) => {
                    self.sc_collect_preds(li, usize::MAX, &mut pc);
                    self.scg.pred[k] = pc;
                    k as u32 + 1
                }
                None => 0,
            }
        } else {
            0
        };
        let loc = &mut self.locs[li];
        let mut loads = [0u32; MAX_THREADS];
        loads[t] = ts; // the writer "has seen" its own store
        loc.stores.push(StoreElem {
            val,
            writer: t,
            ts,
            rel,
            sc,
            sc_ev,
            sc_readers: Vec::new(),
            loads,
            sc_loaded: false,
            ev,
        });
        while loc.stores.len() > hist {
            let old = loc.stores.remove(0);
            if old.sc_ev != 0 {
                loc.sc_dropped.push(old.sc_ev - 1);
            }
            loc.sc_dropped.extend(old.sc_readers.iter().copied());
            if loc.sc_dropped.len() > 64 {
                // keep only the most recent ones: older ones are in their closures already
                // whenever they are ordered at all; dropping more only loses constraints, which
                // the certificate of a reported execution re-checks from the full event log
                let n = loc.sc_dropped.len();
                loc.sc_dropped.drain(0..n - 64);
            }
            loc.dropped += 1;
        }
        (loc.dropped + loc.stores.len() as u64 - 1) as i64
    }

    /// A new SeqCst event of the current thread (its clock already ticked and, for an acquiring
    /// operation, already joined with what it acquires). Returns its index and the closure of the
    /// SeqCst events that happen-before it.
    fn sc_new_event(&mut self) -> Option<(usize, ScSet)> {
        let k = self.sc_alloc()?;
        let clock = self.threads[self.current].clock;
        Some((k, self.sc_closure_for(&clock, k)))
    }

    fn sc_alloc(&mut self) -> Option<usize> {
        if self.scg.overflow || self.scg.evs.len() >= SC_MAX {
            self.scg.overflow = true;
            return None;
        }
        let t = self.current;
        let ts = self.threads[t].clock.get(t);
        let k = self.scg.evs.len();
        if self.scg.by_thread.len() < MAX_THREADS {
            self.scg.by_thread.resize(MAX_THREADS, Vec::new());
        }
        self.scg.evs.push((t, ts));
        self.scg.pred.push([0; SC_WORDS]);
        self.scg.by_thread[t].push(k as u32);
        Some(k)
    }

    /// Gives back the most recently allocated event (nothing refers to it yet).
    fn sc_discard(&mut self, k: usize) {
        if k + 1 == self.scg.evs.len() {
            let (t, _) = self.scg.evs[k];
            if self.scg.by_thread[t].last().copied() == Some(k as u32) {
                self.scg.by_thread[t].pop();
                self.scg.evs.pop();
                self.scg.pred.pop();
                return;
            }
        }
        // (cannot happen: nothing is allocated between the load half and the store half; if it
        // ever did, keeping the event as a load of the latest store is the conservative choice)
        debug_assert!(false, "sc_discard: event {} is not the latest", k);
    }

    /// Closure of the SeqCst events (other than `me`) that happen-before a point with `clock`.
    fn sc_closure_for(&self, clock: &VClock, me: usize) -> ScSet {
        let mut pc: ScSet = [0; SC_WORDS];
        for u in 0..MAX_THREADS.min(self.scg.by_thread.len()) {
            // the latest SeqCst event of thread u that happens-before (earlier ones of u are in
            // its closure)
            let lim = clock.get(u);
            if lim == 0 {
                continue;
            }
            for &a in self.scg.by_thread[u].iter().rev() {
                let a = a as usize;
                if a != me && self.scg.evs[a].1 <= lim {
                    let pa = self.scg.pred[a];
                    sc_or(&mut pc, &pa);
                    sc_set(&mut pc, a);
                    break;
                }
            }
        }
        pc
    }

    /// Adds to `pc` the closure of the SeqCst events that are coherence-ordered before a SeqCst
    /// access reading store `idx` of location `li` (`usize::MAX`: a new store at the mo end).
    fn sc_collect_preds(&self, li: usize, idx: usize, pc: &mut ScSet) {
        let loc = &self.locs[li];
        let mut add = |e: u32, pc: &mut ScSet| {
            let e = e as usize;
            if e < self.scg.pred.len() {
                let pe = self.scg.pred[e];
                sc_or(pc, &pe);
                sc_set(pc, e);
            }
        };
        for e in loc.sc_dropped.iter() {
            add(*e, pc);
        }
        for (j, st) in loc.stores.iter().enumerate() {
            if idx != usize::MAX && j > idx {
                break;
            }
            if st.sc_ev != 0 {
                add(st.sc_ev - 1, pc); // mo (and rf when j == idx)
            }
            if idx == usize::MAX || j < idx {
                for r in st.sc_readers.iter() {
                    add(*r, pc); // that load reads-before every later store
                }
            }
        }
    }

    /// Would a SeqCst load with happens-before closure `hb_pc` reading store `idx` keep the S
    /// graph acyclic? Returns the predecessor closure to commit if so.
    fn sc_read_admissible(&self, li: usize, idx: usize, hb_pc: &ScSet) -> Option<ScSet> {
        let mut pc = *hb_pc;
        self.sc_collect_preds(li, idx, &mut pc);
        let loc = &self.locs[li];
        for st in loc.stores.iter().skip(idx + 1) {
            if st.sc_ev != 0 && sc_bit(&pc, (st.sc_ev - 1) as usize) {
                return None; // the load would have to precede a store that must precede it
            }
            for r in st.sc_readers.iter() {
                if sc_bit(&pc, *r as usize) {
                    return None;
                }
            }
        }
        Some(pc)
    }

    /// Commits a SeqCst load (event k, predecessor closure pc) of store `idx`.
    fn sc_commit_read(&mut self, li: usize, idx: usize, k: usize, pc: ScSet) {
        self.scg.pred[k] = pc;
        let mut pck = pc;
        sc_set(&mut pck, k);
        // successors: later SeqCst stores of the location and SeqCst loads of later stores
        let mut succ: Vec<usize> = Vec::new();
        for st in self.locs[li].stores.iter().skip(idx + 1) {
            if st.sc_ev != 0 {
                succ.push((st.sc_ev - 1) as usize);
            }
            succ.extend(st.sc_readers.iter().map(|r| *r as usize));
        }
        if !succ.is_empty() {
            let n = self.scg.pred.len();
            for q in succ {
                if q == k || q >= n {
                    continue;
                }
                sc_or(&mut self.scg.pred[q], &pck);
                for w in 0..n {
                    if w != q && sc_bit(&self.scg.pred[w], q) {
                        let mut pw = self.scg.pred[w];
                        sc_or(&mut pw, &pck);
                        self.scg.pred[w] = pw;
                    }
                }
            }
        }
        self.locs[li].stores[idx].sc_readers.push(k as u32);
    }
}

pub(crate) fn atomic_load(
    meta: &std::sync::atomic::AtomicU64,
    hint: u32,
    mirror: usize,
    is_ptr: bool,
    ord: Ordering,
    site: &'static Location<'static>,
) -> usize {
    sched_point();
    let Some(rt) = rt() else { return mirror };
    if rt.aborting {
        return mirror;
    }
    let li = loc_index(rt, meta, hint, mirror, is_ptr);
    let (t, ts) = rt.tick();
    let pick = rt.choose_store(li, is_sc(ord), true);
    rt.finish_read(li, pick.idx, &pick);
    let s = &mut rt.locs[li].stores[pick.idx];
    s.loads[t] = ts;
    if is_sc(ord) {
        s.sc_loaded = true;
    }
    let (val, rel) = (s.val, s.rel);
    let mo = (rt.locs[li].dropped + pick.idx as u64) as i64;
    rt.do_read_sync(t, &rel, ord);
    if pick.stale_by > 0 {
        rt.stats.stale_reads += 1;
        rt.note_stale(li, OpK::Load, ord, site);
    }
    rt.log_event(OpK::Load, li, ord, mo, -1, 0, val, pick.stale_by, site);
    val
}


#[inline]
fn report_in_use_write(rt: &mut Runtime, li: usize, meta: &std::sync::atomic::AtomicU64, new: usize) {
    if rt.locs[li].class == LocClass::InUse {
        if let Some(h) = rt.event_hook {
            h(IN_USE_WRITE_BASE + (new as u32 & 0xff), meta as *const _ as usize);
        }
    }
}

pub(crate) fn atomic_store(
    meta: &std::sync::atomic::AtomicU64,
    hint: u32,
    mirror: &dyn Fn(usize),
    old_mirror: usize,
    is_ptr: bool,
    val: usize,
    ord: Ordering,
    site: &'static Location<'static>,
) {
    sched_point();
    let Some(rt) = rt() else {
        mirror(val);
        return;
    };
    if rt.aborting {
        mirror(val);
        return;
    }
    let li = loc_index(rt, meta, hint, old_mirror, is_ptr);
    // Plain stores to words that only the owner of a thread node ever writes are reported to the
    // harness with the word's address (ownership monitor, C11).
    let cls = rt.locs[li].class;
    if matches!(cls, LocClass::ActiveAddr | LocClass::SpaceOffer) {
        if let Some(h) = rt.event_hook {
            h(OWNER_ONLY_STORE, meta as *const _ as usize);
        }
    }
    let (t, ts) = rt.tick();
    let rel = if is_rel(ord) {
        rt.threads[t].clock
    } else {
        rt.threads[t].rel_fence
    };
    let mo = rt.push_store(li, val, t, ts, rel, is_sc(ord));
    mirror(val);
    rt.log_event(OpK::Store, li, ord, -1, mo, val, 0, 0, site);
    report_in_use_write(rt, li, meta, val);
}

/// Read-modify-write that always succeeds (swap, fetch_add, ...). Returns the old value.
pub(crate) fn atomic_rmw(
    meta: &std::sync::atomic::AtomicU64,
    hint: u32,
    mirror: &dyn Fn(usize),
    old_mirror: usize,
    is_ptr: bool,
    f: &dyn Fn(usize) -> usize,
    ord: Ordering,
    site: &'static Location<'static>,
) -> usize {
    sched_point();
    let Some(rt) = rt() else {
        mirror(f(old_mirror));
        return old_mirror;
    };
    if rt.aborting {
        mirror(f(old_mirror));
        return old_mirror;
    }
    let li = loc_index(rt, meta, hint, old_mirror, is_ptr);
    // Unconditional read-modify-writes (swap) of a node's control word and debt slots are the
    // owner's moves; everybody else only compare-exchanges them. Reported like owner-only stores.
    let cls = rt.locs[li].class;
    if matches!(cls, LocClass::Control | LocClass::FastSlot | LocClass::HelpSlot) {
        if let Some(h) = rt.event_hook {
            h(OWNER_ONLY_STORE, meta as *const _ as usize);
        }
    }
    let (t, ts) = rt.tick();
    let last = rt.locs[li].stores.len() - 1;
    let s = &mut rt.locs[li].stores[last];
    s.loads[t] = ts;
    if is_sc(ord) {
        s.sc_loaded = true;
    }
    let (old, read_rel) = (s.val, s.rel);
    let rf = (rt.locs[li].dropped + last as u64) as i64;
    rt.do_read_sync(t, &read_rel, ord);
    let mut rel = if is_rel(ord) {
        rt.threads[t].clock
    } else {
        rt.threads[t].rel_fence
    };
    rel.join(&read_rel); // release sequence continues through RMWs
    let new = f(old);
    let mo = rt.push_store(li, new, t, ts, rel, is_sc(ord));
    mirror(new);
    rt.log_event(OpK::Rmw, li, ord, rf, mo, new, old, 0, site);
    report_in_use_write(rt, li, meta, new);
    if rt.locs[li].class == LocClass::ActiveWriters && new != old {
        if let Some(h) = rt.event_hook {
            h(if new > old && new.wrapping_sub(old) < (1 << 30) { WRITER_ENTERED } else { WRITER_LEFT }, meta as *const _ as usize);
        }
    }
    old
}

#[allow(clippy::too_many_arguments)]
pub(crate) fn atomic_cas(
    meta: &std::sync::atomic::AtomicU64,
    hint: u32,
    mirror: &dyn Fn(usize),
    old_mirror: usize,
    is_ptr: bool,
    expected: usize,
    new: usize,
    succ: Ordering,
    fail_ord: Ordering,
    weak: bool,
    site: &'static Location<'static>,
) -> Result<usize, usize> {
    sched_point();
    let Some(rt) = rt() else {
        return if old_mirror == expected {
            mirror(new);
            Ok(old_mirror)
        } else {
            Err(old_mirror)
        };
    };
    if rt.aborting {
        return if old_mirror == expected {
            mirror(new);
            Ok(old_mirror)
        } else {
            Err(old_mirror)
        };
    }
    let li = loc_index(rt, meta, hint, old_mirror, is_ptr);
    let (t, ts) = rt.tick();
    let last = rt.locs[li].stores.len() - 1;
    let latest_val = rt.locs[li].stores[last].val;

    // Spurious failure of the weak form (never twice in a row per thread, never in a probe).
    if weak && latest_val == expected && rt.cfg.p_spurious > 0 && rt.probe.is_none() && !rt.threads[t].spurious_last {
        let p = rt.cfg.p_spurious;
        if rt.decide(DecKind::Spurious, 2, |rng, _| rng.chance256(p) as usize) == 1 {
            rt.threads[t].spurious_last = true;
            rt.stats.spurious_cas += 1;
            if is_sc(fail_ord) {
                rt.sc_simple_read(li, last);
            }
            let s = &mut rt.locs[li].stores[last];
            s.loads[t] = ts;
            if is_sc(fail_ord) {
                s.sc_loaded = true;
            }
            let rel = s.rel;
            rt.do_read_sync(t, &rel, fail_ord);
            let rf = (rt.locs[li].dropped + last as u64) as i64;
            rt.log_event(OpK::CasFail, li, fail_ord, rf, -1, 0, latest_val, 0, site);
            return Err(latest_val);
        }
    }
    rt.threads[t].spurious_last = false;

    // A failed CAS is a load with the failure ordering and may read an older store, provided
    // that store's value differs from `expected` (a strong CAS that reads `expected` succeeds,
    // and a successful CAS reads the mo-latest store).
    let pick = rt.choose_store(li, is_sc(fail_ord), true);
    let pv = rt.locs[li].stores[pick.idx].val;
    if pv != expected {
        rt.finish_read(li, pick.idx, &pick);
        let s = &mut rt.locs[li].stores[pick.idx];
        s.loads[t] = ts;
        if is_sc(fail_ord) {
            s.sc_loaded = true;
        }
        let rel = s.rel;
        rt.do_read_sync(t, &rel, fail_ord);
        if pick.stale_by > 0 {
            rt.stats.stale_cas_fail += 1;
            rt.note_stale(li, OpK::CasFail, fail_ord, site);
        }
        let rf = (rt.locs[li].dropped + pick.idx as u64) as i64;
        rt.log_event(OpK::CasFail, li, fail_ord, rf, -1, 0, pv, pick.stale_by, site);
        return Err(pv);
    }
    if latest_val != expected {
        // The picked (older) store equals `expected` but the latest does not: read the latest.
        rt.finish_read(li, last, &pick);
        let s = &mut rt.locs[li].stores[last];
        s.loads[t] = ts;
        if is_sc(fail_ord) {
            s.sc_loaded = true;
        }
        let rel = s.rel;
        rt.do_read_sync(t, &rel, fail_ord);
        let rf = (rt.locs[li].dropped + last as u64) as i64;
        rt.log_event(OpK::CasFail, li, fail_ord, rf, -1, 0, latest_val, 0, site);
        return Err(latest_val);
    }
    // Success: an RMW on the latest store.
    let s = &mut rt.locs[li].stores[last];
    s.loads[t] = ts;
    if is_sc(succ) {
        s.sc_loaded = true;
    }
    let read_rel = s.rel;
    let rf = (rt.locs[li].dropped + last as u64) as i64;
    rt.do_read_sync(t, &read_rel, succ);
    let mut rel = if is_rel(succ) {
        rt.threads[t].clock
    } else {
        rt.threads[t].rel_fence
    };
    rel.join(&read_rel);
    // the load half may already have allocated this operation's event in the S graph
    let reuse = pick.sc.as_ref().map(|(k, _, _)| *k);
    let mo = if is_sc(succ) {
        rt.push_store_ev(li, new, t, ts, rel, true, reuse)
    } else {
        if let Some(k) = reuse {
            // SeqCst failure ordering with a weaker success ordering: the compare-exchange
            // succeeded, so the ordering that applies is the success ordering and the operation
            // is not a SeqCst operation at all ([atomics.types.operations]: "if the comparison is
            // true, memory is affected according to the value of success"). The event that was
            // provisionally allocated for the load half is given back; treating it as a SeqCst
            // load would add edges to S that C++20 does not have and hide executions.
            rt.sc_discard(k);
        }
        rt.push_store(li, new, t, ts, rel, false)
    };
    mirror(new);
    rt.log_event(OpK::CasOk, li, succ, rf, mo, new, expected, 0, site);
    report_in_use_write(rt, li, meta, new);
    Ok(expected)
}

pub fn fence(ord: Ordering) {
    sched_point();
    let Some(rt) = rt() else { return };
    if rt.aborting {
        return;
    }
    let (t, _ts) = rt.tick();
    if is_acq(ord) {
        let p = rt.threads[t].acq_pending;
        rt.threads[t].clock.join(&p);
    }
    if is_rel(ord) {
        rt.threads[t].rel_fence = rt.threads[t].clock;
    }
    // SeqCst fences: the crate under test uses none; the harness pointer uses an acquire fence
    // only. (If a SeqCst fence appears it is treated as AcqRel, which is weaker than C++20
    // requires, i.e. it can only add behaviours relative to a faithful fence. This is reported
    // in the statistics so that it cannot go unnoticed.)
    rt.log_event(OpK::Fence, usize::MAX, ord, -1, -1, 0, 0, 0, Location::caller());
}

// ---------------------------------------------------------------------------------------------
// Non-atomic cells with race detection
// ---------------------------------------------------------------------------------------------

pub struct RaceCell {
    w_tid: Cell<Tid>,
    w_ts: Cell<u32>,
    reads: Cell<[u32; MAX_THREADS]>,
}

impl Default for RaceCell {
    fn default() -> Self {
        Self::new()
    }
}

impl RaceCell {
    pub const fn new() -> RaceCell {
        RaceCell {
            w_tid: Cell::new(NO_TID),
            w_ts: Cell::new(0),
            reads: Cell::new([0; MAX_THREADS]),
        }
    }

    pub fn reset(&self) {
        self.w_tid.set(NO_TID);
        self.w_ts.set(0);
        self.reads.set([0; MAX_THREADS]);
    }

    /// Non-atomic read by the current thread. Returns a description of the race, if any.
    pub fn read(&self, what: &str) -> Option<String> {
        let rt = rt()?;
        if rt.aborting {
            return None;
        }
        let (t, ts) = rt.tick();
        rt.stats.races_checked += 1;
        let clock = rt.threads[t].clock;
        let mut r = self.reads.get();
        r[t] = ts;
        self.reads.set(r);
        let w = self.w_tid.get();
        if w != NO_TID && self.w_ts.get() > clock.get(w) {
            return Some(format!(
                "data race: thread {} reads {} not ordered after the write by thread {} (ts {})",
                t,
                what,
                w,
                self.w_ts.get()
            ));
        }
        None
    }

    /// Non-atomic write by the current thread.
    pub fn write(&self, what: &str) -> Option<String> {
        let rt = rt()?;
        if rt.aborting {
            return None;
        }
        let (t, ts) = rt.tick();
        rt.stats.races_checked += 1;
        let clock = rt.threads[t].clock;
        let w = self.w_tid.get();
        let mut res = None;
        if w != NO_TID && self.w_ts.get() > clock.get(w) {
            res = Some(format!(
                "data race: thread {} writes {} not ordered after the write by thread {}",
                t, what, w
            ));
        }
        let r = self.reads.get();
        for u in 0..MAX_THREADS {
            if r[u] != 0 && r[u] > clock.get(u) && u != t {
                res = Some(format!(
                    "data race: thread {} writes {} not ordered after a read by thread {}",
                    t, what, u
                ));
            }
        }
        self.w_tid.set(t);
        self.w_ts.set(ts);
        self.reads.set([0; MAX_THREADS]);
        res
    }
}
