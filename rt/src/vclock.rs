//! Fixed-width vector clocks. Thread ids are dense per execution (0..MAX_THREADS).

pub const MAX_THREADS: usize = 16;

#[derive(Clone, Copy, PartialEq, Eq, Debug)]
pub struct VClock(pub [u32; MAX_THREADS]);

impl Default for VClock {
    fn default() -> Self {
        VClock([0; MAX_THREADS])
    }
}

impl VClock {
    pub const ZERO: VClock = VClock([0; MAX_THREADS]);

    #[inline]
    pub fn join(&mut self, other: &VClock) {
        for i in 0..MAX_THREADS {
            if other.0[i] > self.0[i] {
                self.0[i] = other.0[i];
            }
        }
    }

    #[inline]
    pub fn get(&self, t: usize) -> u32 {
        self.0[t]
    }

    /// `self <= other` pointwise.
    #[inline]
    pub fn le(&self, other: &VClock) -> bool {
        for i in 0..MAX_THREADS {
            if self.0[i] > other.0[i] {
                return false;
            }
        }
        true
    }

    #[inline]
    pub fn is_zero(&self) -> bool {
        self.0.iter().all(|x| *x == 0)
    }
}
