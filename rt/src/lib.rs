//! verif_rt — the deterministic simulation runtime for arc-swap (see /verif/DESIGN.md).
pub mod atomic;
pub mod core;
pub mod tls;
pub mod vclock;

pub use crate::core::{
    active, buggify, current, event, fail, give_up, join, op_begin, op_end, probe, sched_point, spawn, LocClass, IN_USE_WRITE_BASE, OWNER_ONLY_STORE, WRITER_ENTERED, WRITER_LEFT,
};

/// Reach-probe identifiers used by the hooks in /repo (kept here so both sides agree).
pub mod probes {
    pub const FAST_CONFIRMED: usize = 0;
    pub const FAST_CHANGED_RETURNED: usize = 1;
    pub const FAST_CHANGED_PAID: usize = 2;
    pub const FAST_NO_SLOT: usize = 3;
    pub const FB_CONFIRMED: usize = 4;
    pub const FB_HELPED: usize = 5;
    pub const FB_HELPED_AND_PAID: usize = 6;
    pub const HELP_IDLE: usize = 7;
    pub const HELP_ALREADY_REPLACED: usize = 8;
    pub const HELP_OTHER_ADDR: usize = 9;
    pub const HELP_CONTROL_CHANGED: usize = 10;
    pub const HELP_CAS_LOST: usize = 11;
    pub const HELP_SUCCEEDED: usize = 12;
    pub const PAYALL_PAID_SLOT: usize = 13;
    pub const NODE_CLAIMED: usize = 14;
    pub const NODE_CREATED: usize = 15;
    pub const COOLDOWN_STARTED: usize = 16;
    pub const COOLDOWN_ENDED: usize = 17;
    pub const COOLDOWN_BLOCKED: usize = 18;
    pub const TLS_GONE_NODE: usize = 19;
    pub const GEN_WRAP: usize = 20;
    pub const CAS_RETRY: usize = 21;
    pub const RCU_RETRY: usize = 22;
    pub const GUARD_DEBT_RETURNED: usize = 23;
    pub const GUARD_DEBT_WAS_PAID: usize = 24;
    pub const DEBT_WRITTEN: usize = 25;
    pub const GEN_PUBLISHED: usize = 26;
    pub const PTR_SWAPPED: usize = 27;
    pub const INTO_INNER_PAID_RACE: usize = 28;
    pub const READER_STORAGE: usize = 29;
    pub const PAID_STORAGE: usize = 30;
    pub const PTR_READ_UNPROTECTED: usize = 31;
    pub const PAYALL_ENTER: usize = 32;
    pub const PAYALL_EXIT: usize = 33;
    pub const HELP_REPLACEMENT_LOADED: usize = 34;
    pub const HELP_ADDR_MISMATCH: usize = 35;
    pub const NAMES: [&str; 36] = [
        "fast_confirmed",
        "fast_changed_returned",
        "fast_changed_paid",
        "fast_no_slot",
        "fallback_confirmed",
        "fallback_helped",
        "fallback_helped_and_paid",
        "help_idle",
        "help_already_replaced",
        "help_other_addr",
        "help_control_changed",
        "help_cas_lost",
        "help_succeeded",
        "payall_paid_slot",
        "node_claimed",
        "node_created",
        "cooldown_started",
        "cooldown_ended",
        "cooldown_blocked",
        "tls_gone_node",
        "gen_wrap",
        "cas_retry",
        "rcu_retry",
        "guard_debt_returned",
        "guard_debt_was_paid",
        "debt_written",
        "gen_published",
        "ptr_swapped",
        "into_inner_paid_race",
        "reader_storage",
        "paid_storage",
        "ptr_read_unprotected",
        "payall_enter",
        "payall_exit",
        "help_replacement_loaded",
        "help_addr_mismatch",
    ];
}

/// Buggify sites.
pub mod sites {
    pub const FAST_SLOT_REFUSED: usize = 0;
}
