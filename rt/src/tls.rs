//! `thread_local!` for simulated threads: values live per simulated thread, are created on first
//! use, and are destroyed when the simulated thread exits, in a controlled order, while the
//! thread is still scheduled like any other (destructors are ordinary code with scheduling
//! points). After destruction `try_with` fails, as with std.

use crate::core::{self, TlsLookup};

#[derive(Debug, Clone, Copy, PartialEq, Eq)]
pub struct AccessError;

impl std::fmt::Display for AccessError {
    fn fmt(&self, f: &mut std::fmt::Formatter<'_>) -> std::fmt::Result {
        f.write_str("already destroyed")
    }
}

impl std::error::Error for AccessError {}

pub struct LocalKey<T: 'static> {
    pub init: fn() -> T,
}

unsafe fn drop_box<T>(p: *mut u8) {
    drop(Box::from_raw(p as *mut T));
}

impl<T: 'static> LocalKey<T> {
    pub const fn new(init: fn() -> T) -> Self {
        LocalKey { init }
    }

    pub fn try_with<F, R>(&'static self, f: F) -> Result<R, AccessError>
    where
        F: FnOnce(&T) -> R,
    {
        let key = self as *const Self as usize;
        match core::tls_lookup(key) {
            TlsLookup::Found(p) => Ok(f(unsafe { &*(p as *const T) })),
            TlsLookup::Destroyed => {
                core::note_tls_gone();
                Err(AccessError)
            }
            TlsLookup::Missing => {
                let b = Box::into_raw(Box::new((self.init)()));
                core::tls_insert(key, b as *mut u8, drop_box::<T>);
                Ok(f(unsafe { &*b }))
            }
            TlsLookup::NoRuntime => panic!("simulated thread_local used outside a simulated execution"),
        }
    }

    /// Look at the value without creating it: `None` if this simulated thread has not created
    /// it yet or has already destroyed it (observer only, no side effects).
    pub fn verif_peek<F, R>(&'static self, f: F) -> Option<R>
    where
        F: FnOnce(&T) -> R,
    {
        let key = self as *const Self as usize;
        match core::tls_lookup(key) {
            TlsLookup::Found(p) => Some(f(unsafe { &*(p as *const T) })),
            _ => None,
        }
    }

    pub fn with<F, R>(&'static self, f: F) -> R
    where
        F: FnOnce(&T) -> R,
    {
        self.try_with(f)
            .expect("cannot access a simulated thread-local value during or after destruction")
    }
}

#[macro_export]
macro_rules! thread_local {
    () => {};
    ($(#[$attr:meta])* $vis:vis static $name:ident : $t:ty = $init:expr; $($rest:tt)*) => {
        $(#[$attr])* $vis static $name: $crate::tls::LocalKey<$t> = {
            fn __init() -> $t { $init }
            $crate::tls::LocalKey::new(__init)
        };
        $crate::thread_local!($($rest)*);
    };
    ($(#[$attr:meta])* $vis:vis static $name:ident : $t:ty = $init:expr) => {
        $crate::thread_local!($(#[$attr])* $vis static $name: $t = $init;);
    };
}
