//! Drop-in replacements for `core::sync::atomic::{AtomicUsize, AtomicPtr}` whose every
//! operation is a scheduling point and whose visible values are decided by the memory model
//! in `core.rs`. Outside an execution they behave like the real thing.

use crate::core::{self, LocClass};
use std::panic::Location;
use std::sync::atomic::{AtomicU32, AtomicU64, AtomicUsize as RealUsize, Ordering};

pub use std::sync::atomic::Ordering as O;

pub struct AtomicUsize {
    v: RealUsize,
    meta: AtomicU64,
    hint: AtomicU32,
}

impl Default for AtomicUsize {
    fn default() -> Self {
        Self::new(0)
    }
}

impl std::fmt::Debug for AtomicUsize {
    fn fmt(&self, f: &mut std::fmt::Formatter<'_>) -> std::fmt::Result {
        write!(f, "AtomicUsize({:#x})", self.v.load(Ordering::Relaxed))
    }
}

impl AtomicUsize {
    pub const fn new(v: usize) -> Self {
        AtomicUsize {
            v: RealUsize::new(v),
            meta: AtomicU64::new(0),
            hint: AtomicU32::new(0),
        }
    }

    #[inline]
    fn h(&self) -> u32 {
        self.hint.load(Ordering::Relaxed)
    }

    /// Label the location (simulation bookkeeping only).
    pub fn verif_label(&self, class: LocClass, sub: u16) {
        self.hint.store(class as u32 | ((sub as u32) << 8), Ordering::Relaxed);
        core::forget(&self.meta);
    }

    /// The mo-latest value, read without a scheduling point and without memory-model effects.
    pub fn verif_peek(&self) -> usize {
        self.v.load(Ordering::Relaxed)
    }

    /// Re-initialise the location as if freshly constructed with `v` (arena address reuse).
    pub fn verif_reset(&self, v: usize) {
        self.v.store(v, Ordering::Relaxed);
        core::forget(&self.meta);
    }

    #[track_caller]
    #[inline]
    pub fn load(&self, ord: Ordering) -> usize {
        if !core::active() {
            return self.v.load(ord);
        }
        core::atomic_load(&self.meta, self.h(), self.v.load(Ordering::Relaxed), false, ord, Location::caller())
    }

    #[track_caller]
    #[inline]
    pub fn store(&self, val: usize, ord: Ordering) {
        if !core::active() {
            return self.v.store(val, ord);
        }
        core::atomic_store(
            &self.meta,
            self.h(),
            &|x| self.v.store(x, Ordering::Relaxed),
            self.v.load(Ordering::Relaxed),
            false,
            val,
            ord,
            Location::caller(),
        )
    }

    #[track_caller]
    #[inline]
    pub fn swap(&self, val: usize, ord: Ordering) -> usize {
        if !core::active() {
            return self.v.swap(val, ord);
        }
        core::atomic_rmw(
            &self.meta,
            self.h(),
            &|x| self.v.store(x, Ordering::Relaxed),
            self.v.load(Ordering::Relaxed),
            false,
            &|_| val,
            ord,
            Location::caller(),
        )
    }

    #[track_caller]
    #[inline]
    pub fn fetch_add(&self, val: usize, ord: Ordering) -> usize {
        if !core::active() {
            return self.v.fetch_add(val, ord);
        }
        core::atomic_rmw(
            &self.meta,
            self.h(),
            &|x| self.v.store(x, Ordering::Relaxed),
            self.v.load(Ordering::Relaxed),
            false,
            &|o| o.wrapping_add(val),
            ord,
            Location::caller(),
        )
    }

    #[track_caller]
    #[inline]
    pub fn fetch_sub(&self, val: usize, ord: Ordering) -> usize {
        if !core::active() {
            return self.v.fetch_sub(val, ord);
        }
        core::atomic_rmw(
            &self.meta,
            self.h(),
            &|x| self.v.store(x, Ordering::Relaxed),
            self.v.load(Ordering::Relaxed),
            false,
            &|o| o.wrapping_sub(val),
            ord,
            Location::caller(),
        )
    }

    #[track_caller]
    #[inline]
    pub fn compare_exchange(&self, cur: usize, new: usize, s: Ordering, f: Ordering) -> Result<usize, usize> {
        if !core::active() {
            return self.v.compare_exchange(cur, new, s, f);
        }
        core::atomic_cas(
            &self.meta,
            self.h(),
            &|x| self.v.store(x, Ordering::Relaxed),
            self.v.load(Ordering::Relaxed),
            false,
            cur,
            new,
            s,
            f,
            false,
            Location::caller(),
        )
    }

    #[track_caller]
    #[inline]
    pub fn compare_exchange_weak(&self, cur: usize, new: usize, s: Ordering, f: Ordering) -> Result<usize, usize> {
        if !core::active() {
            return self.v.compare_exchange(cur, new, s, f);
        }
        core::atomic_cas(
            &self.meta,
            self.h(),
            &|x| self.v.store(x, Ordering::Relaxed),
            self.v.load(Ordering::Relaxed),
            false,
            cur,
            new,
            s,
            f,
            true,
            Location::caller(),
        )
    }

    /// Exclusive access. The caller may write through the reference, so the location's
    /// simulated history is forgotten and rebuilt from the value found at the next access.
    pub fn get_mut(&mut self) -> &mut usize {
        core::forget(&self.meta);
        self.v.get_mut()
    }

    pub fn into_inner(self) -> usize {
        self.v.into_inner()
    }
}

pub struct AtomicPtr<T> {
    v: std::sync::atomic::AtomicPtr<T>,
    meta: AtomicU64,
    hint: AtomicU32,
}

impl<T> Default for AtomicPtr<T> {
    fn default() -> Self {
        Self::new(std::ptr::null_mut())
    }
}

impl<T> std::fmt::Debug for AtomicPtr<T> {
    fn fmt(&self, f: &mut std::fmt::Formatter<'_>) -> std::fmt::Result {
        write!(f, "AtomicPtr({:p})", self.v.load(Ordering::Relaxed))
    }
}

impl<T> AtomicPtr<T> {
    pub const fn new(p: *mut T) -> Self {
        AtomicPtr {
            v: std::sync::atomic::AtomicPtr::new(p),
            meta: AtomicU64::new(0),
            hint: AtomicU32::new(0),
        }
    }

    pub fn verif_label(&self, class: LocClass, sub: u16) {
        self.hint.store(class as u32 | ((sub as u32) << 8), Ordering::Relaxed);
        core::forget(&self.meta);
    }

    pub fn verif_peek(&self) -> *mut T {
        self.v.load(Ordering::Relaxed)
    }

    #[inline]
    fn h(&self) -> u32 {
        self.hint.load(Ordering::Relaxed)
    }
    #[inline]
    fn cur(&self) -> usize {
        self.v.load(Ordering::Relaxed) as usize
    }

    #[track_caller]
    #[inline]
    pub fn load(&self, ord: Ordering) -> *mut T {
        if !core::active() {
            return self.v.load(ord);
        }
        core::atomic_load(&self.meta, self.h(), self.cur(), true, ord, Location::caller()) as *mut T
    }

    #[track_caller]
    #[inline]
    pub fn store(&self, val: *mut T, ord: Ordering) {
        if !core::active() {
            return self.v.store(val, ord);
        }
        core::atomic_store(
            &self.meta,
            self.h(),
            &|x| self.v.store(x as *mut T, Ordering::Relaxed),
            self.cur(),
            true,
            val as usize,
            ord,
            Location::caller(),
        )
    }

    #[track_caller]
    #[inline]
    pub fn swap(&self, val: *mut T, ord: Ordering) -> *mut T {
        if !core::active() {
            return self.v.swap(val, ord);
        }
        core::atomic_rmw(
            &self.meta,
            self.h(),
            &|x| self.v.store(x as *mut T, Ordering::Relaxed),
            self.cur(),
            true,
            &|_| val as usize,
            ord,
            Location::caller(),
        ) as *mut T
    }

    #[track_caller]
    #[inline]
    pub fn compare_exchange(&self, cur: *mut T, new: *mut T, s: Ordering, f: Ordering) -> Result<*mut T, *mut T> {
        if !core::active() {
            return self.v.compare_exchange(cur, new, s, f);
        }
        core::atomic_cas(
            &self.meta,
            self.h(),
            &|x| self.v.store(x as *mut T, Ordering::Relaxed),
            self.cur(),
            true,
            cur as usize,
            new as usize,
            s,
            f,
            false,
            Location::caller(),
        )
        .map(|x| x as *mut T)
        .map_err(|x| x as *mut T)
    }

    #[track_caller]
    #[inline]
    pub fn compare_exchange_weak(&self, cur: *mut T, new: *mut T, s: Ordering, f: Ordering) -> Result<*mut T, *mut T> {
        if !core::active() {
            return self.v.compare_exchange(cur, new, s, f);
        }
        core::atomic_cas(
            &self.meta,
            self.h(),
            &|x| self.v.store(x as *mut T, Ordering::Relaxed),
            self.cur(),
            true,
            cur as usize,
            new as usize,
            s,
            f,
            true,
            Location::caller(),
        )
        .map(|x| x as *mut T)
        .map_err(|x| x as *mut T)
    }

    /// Exclusive access; see `AtomicUsize::get_mut`.
    pub fn get_mut(&mut self) -> &mut *mut T {
        core::forget(&self.meta);
        self.v.get_mut()
    }
}

pub fn fence(ord: Ordering) {
    if !core::active() {
        return std::sync::atomic::fence(ord);
    }
    core::fence(ord)
}
