#!/bin/bash
# sweep.sh "<seeds>" "<props>" [tier]  — run the registered checks for several VERIF_SEED values
# and print one line per (seed, property) plus every VIOLATION / KNOWN-FINDING / error line.
HERE="$(cd "$(dirname "$(readlink -f "$0")")" && pwd)"
SEEDS="${1:-1 2 3}"
PROPS="${2:-C01 C02 C03 C04 C05 C06 C07 C08 C09 C10 C11 C12 C13 C16 C17 C18}"
TIER="${3:-quick}"
for s in $SEEDS; do
  for p in $PROPS; do
    out=$(VERIF_SEED=$s "$HERE/check" $p $TIER 2>&1); rc=$?
    echo "seed=$s prop=$p exit=$rc $(echo "$out" | grep -E '^  executions' | cut -c1-120)"
    echo "$out" | grep -E "^(VIOLATION|HARNESS-ERROR|DIVERGENCE)" | cut -c1-400
    echo "$out" | grep -E "^KNOWN-FINDING" | sed -E 's/^(KNOWN-FINDING: property=[A-Z0-9]+).*\[(KF[^]]*)\].*/\1 \2/'
  done
done
