#!/bin/bash
# run.sh <n_seeds> — Miri cross-check. Exit 0 clean, 1 UB/assertion found (prints the seed),
# 3 engine unavailable.
HERE="$(cd "$(dirname "$(readlink -f "$0")")" && pwd)"
N="${1:-32}"
cd "$HERE" || exit 3
if ! cargo +nightly miri --version >/dev/null 2>&1; then echo "MIRI-UNAVAILABLE"; exit 3; fi
export CARGO_NET_OFFLINE=true
# the simulation cfg flag of /verif/.cargo/config.toml must NOT apply here: guard off
export RUSTFLAGS="-Adead_code"
export MIRIFLAGS="-Zmiri-many-seeds=0..$N -Zmiri-preemption-rate=0.1 -Zmiri-compare-exchange-weak-failure-rate=0.2 -Zmiri-address-reuse-rate=0.7 -Zmiri-address-reuse-cross-thread-rate=0.5"
out=$(CARGO_TARGET_DIR="$HERE/target" cargo +nightly miri run --offline -- all 2>&1); rc=$?
echo "$out" | tail -25
if [ $rc -ne 0 ]; then
  if echo "$out" | grep -q "Undefined Behavior\|panicked\|error: the evaluated program"; then exit 1; fi
  echo "MIRI-UNAVAILABLE (build or setup failed)"; exit 3
fi
exit 0
