//! Small multi-threaded scenarios for `cargo +nightly miri run`. Everything is real here
//! (std atomics, std Arc, std thread_local); Miri supplies the scheduler, the weak-memory
//! emulation, address reuse and the data-race / use-after-free detection. A violation makes
//! Miri stop with an error for the seed it was running.
use arc_swap::{ArcSwap, ArcSwapOption, Guard};
use std::sync::atomic::{AtomicUsize, Ordering};
use std::sync::Arc;
use std::thread;

struct Payload {
    n: usize,
    data: Vec<usize>,
    drops: Arc<AtomicUsize>,
}
impl Payload {
    fn new(n: usize, drops: &Arc<AtomicUsize>) -> Arc<Payload> {
        Arc::new(Payload {
            n,
            data: vec![n; 3],
            drops: drops.clone(),
        })
    }
    fn check(&self) {
        // plain (non-atomic) reads of data written before publication
        assert!(self.data.iter().all(|x| *x == self.n));
    }
}
impl Drop for Payload {
    fn drop(&mut self) {
        self.data[0] = usize::MAX; // a write that races with any late reader
        self.drops.fetch_add(1, Ordering::Relaxed);
    }
}

/// Readers on the fast path and (with 9 guards held) on the fallback path against a writer.
fn readers_writers(writes: usize) {
    let drops = Arc::new(AtomicUsize::new(0));
    let s = Arc::new(ArcSwap::new(Payload::new(0, &drops)));
    let mut hs = Vec::new();
    for r in 0..2 {
        let s = s.clone();
        hs.push(thread::spawn(move || {
            let mut held = Vec::new();
            if r == 1 {
                for _ in 0..9 {
                    held.push(s.load());
                }
            }
            let mut last = 0;
            for _ in 0..4 {
                let g = s.load();
                g.check();
                assert!(g.n >= last);
                last = g.n;
                let full = s.load_full();
                full.check();
            }
            for g in held {
                g.check();
            }
        }));
    }
    {
        let s = s.clone();
        let drops = drops.clone();
        hs.push(thread::spawn(move || {
            for i in 1..=writes {
                let old = s.swap(Payload::new(i, &drops));
                old.check();
            }
        }));
    }
    for h in hs {
        h.join().unwrap();
    }
    let cur = s.load_full();
    assert_eq!(Arc::strong_count(&cur), 2);
    drop(cur);
    drop(s);
    assert_eq!(drops.load(Ordering::Relaxed), writes + 1);
}

/// Guards that outlive their thread and their container; node reuse by later threads.
fn churn() {
    let drops = Arc::new(AtomicUsize::new(0));
    let s = Arc::new(ArcSwap::new(Payload::new(0, &drops)));
    let mut kept: Vec<Guard<Arc<Payload>>> = Vec::new();
    for round in 1..=3 {
        let s2 = s.clone();
        let g = thread::spawn(move || s2.load()).join().unwrap();
        kept.push(g);
        let s3 = s.clone();
        let d = drops.clone();
        thread::spawn(move || {
            s3.store(Payload::new(round, &d));
            let _ = s3.load();
        })
        .join()
        .unwrap();
    }
    drop(s);
    for (i, g) in kept.iter().enumerate() {
        g.check();
        assert_eq!(g.n, i);
    }
    drop(kept);
    assert_eq!(drops.load(Ordering::Relaxed), 4);
}

/// rcu and compare_and_swap from two threads, Option container.
fn rcu_cas() {
    let s = Arc::new(ArcSwapOption::from_pointee(0usize));
    let mut hs = Vec::new();
    for _ in 0..2 {
        let s = s.clone();
        hs.push(thread::spawn(move || {
            for _ in 0..2 {
                s.rcu(|v| Some(Arc::new(v.as_ref().map(|x| **x).unwrap_or(0) + 1)));
            }
            let cur = s.load();
            let _ = s.compare_and_swap(&*cur, None);
        }));
    }
    for h in hs {
        h.join().unwrap();
    }
}

fn main() {
    let which = std::env::args().nth(1).unwrap_or_else(|| "all".into());
    if which == "all" || which == "rw" {
        readers_writers(3);
    }
    if which == "all" || which == "churn" {
        churn();
    }
    if which == "all" || which == "rcu" {
        rcu_cas();
    }
    println!("miri_x: scenarios completed");
}
