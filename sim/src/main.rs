#![recursion_limit = "512"]
//! asim — deterministic simulation driver for arc-swap (see /verif/DESIGN.md).
//!
//!   asim run <PROP> <quick|thorough>      the registered check: workers, minimisation, evidence
//!   asim worker ...                        one worker process (internal)
//!   asim replay <file> [--events]          re-run a replay file exactly
//!   asim selftest determinism <PROP>       run seeds twice in different processes, compare
//!   asim gen <PROP> <seed>                 print the generated case

mod arena;
mod extras;
mod interp;
mod marks;
mod minimise;
mod oracle;
mod program;
mod report;
mod scen;
mod world;

use serde::{Deserialize, Serialize};
use std::collections::{BTreeMap, HashSet};
use std::time::Instant;
use verif_rt::core::{self as rt, Dec, DecKind, Outcome, Rng, RunSpec, Source};

pub const DEFAULT_SEED: u64 = 20260928;
pub const RNG_SALT: u64 = 0xA5A5_5A5A_1234_5678;

// ---------------------------------------------------------------------------------------------
// One execution
// ---------------------------------------------------------------------------------------------

pub struct ExecResult {
    pub failure: Option<(String, String)>,
    pub inconclusive: Option<String>,
    pub trace: Vec<Dec>,
    pub out: Outcome,
    pub hist_stats: oracle::HistStats,
    pub weak: bool,
}

pub fn execute(case: &scen::Case, source: Source, record_events: bool) -> ExecResult {
    unsafe { arc_swap::verif::reset() };
    marks::reset();
    interp::setup_world(&case.prog);
    let cfg = case.cfg.to_rt();
    let weak = case.cfg.is_weak();
    let mut out = rt::run(
        RunSpec {
            cfg,
            source,
            record_events,
            quiescent_hook: Some(interp::quiescent_hook),
            event_hook: Some(interp::event_hook),
        },
        Box::new(interp::main_thread),
    );
    let mut hist_stats = oracle::HistStats {
        containers_checked: 0,
        calls_checked: 0,
        skipped_long: 0,
        max_len: 0,
    };
    let mut failure = out.failure.as_ref().map(|f| (f.kind.clone(), f.msg.clone()));
    if failure.is_none() && out.inconclusive.is_none() {
        failure = world::w(|w| oracle::check_histories(w, weak, &mut hist_stats));
        if failure.is_none() {
            failure = world::w(|w| extras::post_checks(w, weak));
        }
    }
    let trace = std::mem::take(&mut out.trace);
    ExecResult {
        failure,
        inconclusive: out.inconclusive.clone(),
        trace,
        out,
        hist_stats,
        weak,
    }
}

/// Which property an oracle verdict belongs to primarily.
pub fn primary_property(kind: &str, armed_panics: bool) -> &'static str {
    if armed_panics && matches!(kind, "leak" | "ledger" | "double-release" | "uaf") {
        return "C18";
    }
    match kind {
        "uaf" => "C01",
        "double-release" | "ledger" | "leak" => "C02",
        "lin-load" => "C03",
        "lin-write" => "C04",
        "lin-cas" | "cas" => "C05",
        "lin-rcu" | "rcu" => "C06",
        "race" => "C07",
        "meter" => "C08",
        "probe-cap" => "C09",
        "guard-identity" => "C10",
        "node-monitor" | "node-bound" => "C11",
        "foreign-value" | "type-confusion" => "C12",
        "panic" | "thread-panic" => "C13",
        "cache" => "C16",
        "std-arc" => "C02",
        "access" => "C17",
        "post-panic" => "C18",
        _ => "C13",
    }
}

pub fn encode_picks(trace: &[Dec]) -> String {
    let mut s = String::new();
    let mut zeros = 0usize;
    let kinds = ['s', 'r', 'w', 'b', 'a', 'p', 'h', 'z'];
    for d in trace {
        if d.pick == 0 {
            zeros += 1;
        } else {
            if zeros > 0 {
                s.push_str(&format!("_{} ", zeros));
                zeros = 0;
            }
            s.push_str(&format!("{}{} ", kinds[d.kind as usize % kinds.len()], d.pick));
        }
    }
    if zeros > 0 {
        s.push_str(&format!("_{}", zeros));
    }
    s.trim_end().to_string()
}

pub fn decode_picks(s: &str) -> Vec<u16> {
    let mut v = Vec::new();
    for tok in s.split_whitespace() {
        if let Some(n) = tok.strip_prefix('_') {
            let n: usize = n.parse().unwrap_or(0);
            v.extend(std::iter::repeat(0).take(n));
        } else {
            let p: u16 = tok[1..].parse().unwrap_or(0);
            v.push(p);
        }
    }
    v
}

#[derive(Serialize, Deserialize, Clone, Debug)]
pub struct ReplayFile {
    pub property: String,
    pub primary_property: String,
    pub oracle: String,
    pub message: String,
    pub seed: u64,
    pub exec_seed: u64,
    pub minimised: bool,
    pub n_decisions: usize,
    pub n_nonzero: usize,
    pub stale_sites: Vec<String>,
    #[serde(default)]
    pub markers: Vec<String>,
    /// Set for crash/hang captures: the execution is reproduced from its PRNG seed instead of a
    /// recorded decision list (the process died before the list could be saved).
    #[serde(default)]
    pub rng_seed: Option<u64>,
    /// Where in its worker's sequence this execution was: (worker index, iteration, thorough).
    #[serde(default)]
    pub worker_iter: Option<(u64, u64, bool)>,
    /// Set when the violation does not reproduce from this one execution alone: replay then
    /// re-runs the worker's executions 0..=iteration in a fresh process (state outside the
    /// simulator's seams, e.g. a process-global the code under test added, carries over between
    /// executions) and reports the last one.
    #[serde(default)]
    pub replay_with_history: bool,
    pub case: scen::Case,
    pub picks: String,
}

pub fn stale_sites(out: &Outcome) -> Vec<String> {
    let mut v: Vec<String> = Vec::new();
    for s in out.stale.iter() {
        let f = s.file.rsplit("/src/").next().unwrap_or(s.file);
        let d = format!(
            "{}:{}:{}:{}",
            f,
            s.class.name(),
            match s.kind {
                rt::OpK::CasFail => "cas-fail",
                _ => "load",
            },
            rt::ord_name(s.ord)
        );
        if !v.contains(&d) {
            v.push(d);
        }
    }
    v
}

pub fn exec_seed(seed: u64, prop: &str, worker: u64, iter: u64) -> u64 {
    let mut h: u64 = 0xcbf29ce484222325 ^ seed;
    for b in prop.bytes() {
        h = (h ^ b as u64).wrapping_mul(0x100000001b3);
    }
    h = (h ^ worker.wrapping_mul(0x9E3779B97F4A7C15)).wrapping_mul(0x100000001b3);
    h = (h ^ iter.wrapping_mul(0xD6E8FEB86659FD93)).wrapping_mul(0x100000001b3);
    h
}

/// The case and PRNG for one execution seed: a pure function of (prop, tier, mode, seed).
pub fn case_for(prop: &str, thorough: bool, weak: bool, es: u64) -> (scen::Case, Rng) {
    let mut rng = Rng::new(es);
    let case = scen::gen_case(prop, thorough, weak, &mut rng);
    (case, Rng::new(es ^ RNG_SALT))
}

// ---------------------------------------------------------------------------------------------
// Worker
// ---------------------------------------------------------------------------------------------

#[derive(Serialize, Deserialize, Default, Clone, Debug)]
pub struct WorkerSummary {
    pub worker: u64,
    pub mode: String,
    pub executions: u64,
    pub inconclusive: u64,
    pub inconclusive_reasons: BTreeMap<String, u64>,
    pub steps: u64,
    pub decisions: u64,
    pub ctx_switches: u64,
    pub faults: BTreeMap<String, u64>,
    pub probes: BTreeMap<String, u64>,
    pub nontrivial: u64,
    pub distinct_fingerprints: u64,
    pub distinct_nontrivial_fingerprints: u64,
    pub fingerprint_file: String,
    pub solo_probes: u64,
    pub solo_probe_max_steps: u64,
    pub solo_by_op: BTreeMap<String, u64>,
    pub meter_max: BTreeMap<String, u64>,
    pub ledger_checks: u64,
    pub guard_checks: u64,
    pub hist_containers: u64,
    pub hist_calls: u64,
    pub hist_skipped: u64,
    pub hist_max_len: u64,
    pub api_calls: u64,
    pub user_panics: u64,
    pub threads_spawned: u64,
    pub max_admissible: u64,
    pub extra: BTreeMap<String, u64>,
    pub failures: Vec<String>,
    pub samples: Vec<serde_json::Value>,
    pub wall_s: f64,
    pub log_hash: u64,
}

fn bump(m: &mut BTreeMap<String, u64>, k: &str, v: u64) {
    if v > 0 {
        *m.entry(k.to_string()).or_insert(0) += v;
    }
}

pub fn nontrivial(prop: &str, r: &ExecResult) -> bool {
    use verif_rt::probes::*;
    let p = &r.out.stats.probes;
    let interfered = p[FAST_CHANGED_RETURNED] + p[FAST_CHANGED_PAID] + p[FB_HELPED] + p[HELP_CAS_LOST] + p[HELP_CONTROL_CHANGED] > 0;
    let paid = p[PAYALL_PAID_SLOT] + p[GUARD_DEBT_WAS_PAID] + p[INTO_INNER_PAID_RACE] + p[FB_HELPED_AND_PAID] > 0;
    world::w(|w| match prop {
        "C01" | "C03" | "C07" => interfered || paid || w.guards_moved > 0,
        "C02" => paid || interfered,
        "C04" => w.writes_done.iter().filter(|x| **x > 0).count() >= 2,
        "C05" => w.hist.iter().any(|c| c.kind == world::CallKind::Cas) && (p[CAS_RETRY] as usize > w.hist.iter().filter(|c| matches!(c.kind, world::CallKind::Cas | world::CallKind::Rcu | world::CallKind::RcuSeen)).count() || w.writes_done.iter().filter(|x| **x > 0).count() >= 2),
        "C06" => p[RCU_RETRY] > 0,
        "C08" => r.out.stats.adversary_ops > 0 || r.out.stats.solo_probes > 0,
        "C09" => r.out.stats.solo_probes > 0,
        "C10" => w.guards_moved > 0 || p[FAST_NO_SLOT] > 0 || w.nodes_reclaimed > 0,
        "C11" => w.nodes_reclaimed > 0 || p[TLS_GONE_NODE] > 0,
        "C12" => p[HELP_OTHER_ADDR] > 0 || (w.conts.len() > 1 && (interfered || paid)),
        "C13" => p[GEN_WRAP] > 0,
        "C16" => w.extra_counts.get("cache_reloads").copied().unwrap_or(0) > 0,
        "C17" => w.extra_counts.get("acc_guard_outlived_store").copied().unwrap_or(0) > 0,
        "C18" => w.user_panics > 0,
        _ => false,
    })
}

fn fnv(h: &mut u64, x: u64) {
    *h = (*h ^ x).wrapping_mul(0x100000001b3);
}

fn cmd_worker(args: &[String]) {
    let prop = &args[0];
    let thorough = args[1] == "thorough";
    let seed: u64 = args[2].parse().unwrap();
    let worker: u64 = args[3].parse().unwrap();
    let weak = args[4] == "weak";
    let max_execs: u64 = args[5].parse().unwrap();
    let max_secs: f64 = args[6].parse().unwrap();
    let outdir = &args[7];
    let t0 = Instant::now();
    let mut s = WorkerSummary {
        worker,
        mode: if weak { "weak".into() } else { "sc".into() },
        ..Default::default()
    };
    let mut fps: HashSet<u64> = HashSet::new();
    let mut nfps: HashSet<u64> = HashSet::new();
    let mut log_hash = 0xcbf29ce484222325u64;
    let known = report::load_known();
    let mut known_seen: BTreeMap<String, u64> = BTreeMap::new();
    let mut new_failures = 0u64;
    let cur_path = format!("{}/tmp-cur-{}-{}.bin", outdir, prop, worker);
    let mut cur_file = std::fs::File::create(&cur_path).ok();
    let mut it = 0u64;
    while it < max_execs && t0.elapsed().as_secs_f64() < max_secs {
        let es = exec_seed(seed, prop, worker, it);
        it += 1;
        if let Some(f) = cur_file.as_mut() {
            use std::io::{Seek, SeekFrom, Write};
            let _ = f.seek(SeekFrom::Start(0));
            let _ = f.write_all(&es.to_le_bytes());
        }
        let (case, rng) = case_for(prop, thorough, weak, es);
        let r = execute(&case, Source::Random(rng), false);
        s.executions += 1;
        let st = &r.out.stats;
        s.steps += st.steps;
        s.decisions += st.decisions;
        s.ctx_switches += st.ctx_switches;
        fnv(&mut log_hash, r.out.fingerprint);
        fnv(&mut log_hash, st.steps);
        bump(&mut s.faults, "stale-read", st.stale_reads);
        bump(&mut s.faults, "stale-failed-cas", st.stale_cas_fail);
        bump(&mut s.faults, "spurious-cas", st.spurious_cas);
        bump(&mut s.faults, "stalled-thread", st.stalls);
        bump(&mut s.faults, "fast-slot-refused", st.buggify[0]);
        bump(&mut s.faults, "addr-reuse", st.addr_reuse);
        bump(&mut s.faults, "thread-exit", st.thread_exits);
        bump(&mut s.faults, "tls-gone-op", st.tls_gone_ops);
        bump(&mut s.faults, "solo-probe(freeze-others)", st.solo_probes);
        bump(&mut s.faults, "adversary-writes", st.adversary_ops);
        for (i, n) in verif_rt::probes::NAMES.iter().enumerate() {
            bump(&mut s.probes, n, st.probes[i]);
        }
        s.solo_probes += st.solo_probes;
        s.solo_probe_max_steps = s.solo_probe_max_steps.max(st.solo_probe_max_steps);
        for (i, n) in interp::OP_NAMES.iter().enumerate() {
            bump(&mut s.solo_by_op, n, st.solo_probe_by_op[i]);
            if st.meter_max[i] > 0 {
                let e = s.meter_max.entry(n.to_string()).or_insert(0);
                *e = (*e).max(st.meter_max[i]);
            }
        }
        s.threads_spawned += st.threads_spawned;
        s.max_admissible = s.max_admissible.max(st.max_admissible);
        s.hist_containers += r.hist_stats.containers_checked as u64;
        s.hist_calls += r.hist_stats.calls_checked as u64;
        s.hist_skipped += r.hist_stats.skipped_long as u64;
        s.hist_max_len = s.hist_max_len.max(r.hist_stats.max_len as u64);
        world::w(|w| {
            s.ledger_checks += w.ledger_checks;
            s.guard_checks += w.guard_checks;
            s.api_calls += w.api_calls;
            s.user_panics += w.user_panics as u64;
            bump(&mut s.faults, "user-panic", w.user_panics as u64);
            bump(&mut s.faults, "gen-preset(wrap)", w.gen_presets as u64);
            bump(&mut s.faults, "guard-moved-to-other-thread", w.guards_moved as u64);
            bump(&mut s.faults, "node-reclaim", w.nodes_reclaimed as u64);
            bump(&mut s.faults, "tls-destructor-op", w.tls_dtor_runs as u64);
            for (k, v) in w.extra_counts.iter() {
                bump(&mut s.extra, k, *v);
            }
        });
        if let Some(why) = &r.inconclusive {
            s.inconclusive += 1;
            let key: String = why.split(':').next().unwrap_or("?").to_string();
            bump(&mut s.inconclusive_reasons, &key, 1);
        }
        fps.insert(r.out.fingerprint);
        if nontrivial(prop, &r) {
            s.nontrivial += 1;
            nfps.insert(r.out.fingerprint);
        }
        if s.samples.len() < 2 && (it == 1 || (nontrivial(prop, &r) && s.samples.len() < 2 && it % 7 == 3)) {
            s.samples.push(serde_json::json!({
                "exec_seed": es,
                "mode": s.mode,
                "config": case.cfg,
                "program": case.prog,
                "decisions": r.trace.len(),
                "schedule_and_faults": encode_picks(&r.trace),
                "steps": st.steps,
            }));
        }
        if let Some((kind, msg)) = &r.failure {
            fnv(&mut log_hash, 0xdead);
            let armed = world::w(|w| w.armed > 0 || w.user_panics > 0);
            let rf = ReplayFile {
                property: prop.clone(),
                primary_property: primary_property(kind, armed).to_string(),
                oracle: kind.clone(),
                message: msg.clone(),
                seed,
                exec_seed: es,
                minimised: false,
                n_decisions: r.trace.len(),
                n_nonzero: r.trace.iter().filter(|d| d.pick != 0).count(),
                stale_sites: stale_sites(&r.out),
                markers: marks::all(),
                rng_seed: None,
                worker_iter: Some((worker, it - 1, thorough)),
                replay_with_history: false,
                case: case.clone(),
                picks: encode_picks(&r.trace),
            };
            // A failure that is a recorded known finding must not stop the exploration: keep one
            // replay per finding and go on.
            if let Some(k) = known.findings.iter().find(|k| report::matches_known(k, &rf)) {
                let n = known_seen.entry(k.id.clone()).or_insert(0u64);
                *n += 1;
                bump(&mut s.extra, &format!("known_finding_hits:{}", k.id), 1);
                if *n > 1 {
                    continue;
                }
            } else {
                new_failures += 1;
            }
            let path = format!("{}/tmp-{}-{}-{:016x}.json", outdir, prop, s.mode, es);
            std::fs::write(&path, serde_json::to_string_pretty(&rf).unwrap()).expect("write replay");
            s.failures.push(path);
            if new_failures >= 4 {
                break;
            }
        }
    }
    // Fingerprints go to a binary side file (sorted u64 LE); the summary only carries counts.
    s.distinct_fingerprints = fps.len() as u64;
    {
        let mut v: Vec<u64> = nfps.into_iter().collect();
        v.sort();
        s.distinct_nontrivial_fingerprints = v.len() as u64;
        let mut bytes = Vec::with_capacity(v.len() * 8);
        for x in v {
            bytes.extend_from_slice(&x.to_le_bytes());
        }
        let path = format!("{}/tmp-fp-{}-{}.bin", outdir, prop, worker);
        std::fs::write(&path, bytes).expect("write fingerprint file");
        s.fingerprint_file = path;
    }
    drop(cur_file);
    let _ = std::fs::remove_file(&cur_path);
    s.wall_s = t0.elapsed().as_secs_f64();
    s.log_hash = log_hash;
    println!("{}", serde_json::to_string(&s).unwrap());
}

// ---------------------------------------------------------------------------------------------
// Replay
// ---------------------------------------------------------------------------------------------

pub fn replay_file(rf: &ReplayFile, events: bool) -> ExecResult {
    if let (true, Some((worker, iter, thorough))) = (rf.replay_with_history, rf.worker_iter) {
        let weak = rf.case.cfg.is_weak();
        let mut last = None;
        for i in 0..=iter {
            let es = exec_seed(rf.seed, &rf.property, worker, i);
            let (case, rng) = case_for(&rf.property, thorough, weak, es);
            last = Some(execute(&case, Source::Random(rng), events && i == iter));
        }
        return last.expect("at least one execution");
    }
    if let Some(seed) = rf.rng_seed {
        return execute(&rf.case, Source::Random(Rng::new(seed)), events);
    }
    let picks = decode_picks(&rf.picks);
    execute(&rf.case, Source::Replay { picks, pos: 0 }, events)
}

fn cmd_replay(args: &[String]) -> i32 {
    let path = &args[0];
    let events = args.iter().any(|a| a == "--events");
    let cert = args.iter().any(|a| a == "--certificate");
    let txt = std::fs::read_to_string(path).expect("read replay file");
    let rf: ReplayFile = serde_json::from_str(&txt).expect("parse replay file");
    let r = replay_file(&rf, events || cert);
    println!("replay {}: property={} oracle={}", path, rf.property, rf.oracle);
    println!("  mode={} decisions={} steps={}", rf.case.cfg.mode, r.trace.len(), r.out.stats.steps);
    if events {
        report::print_events(&r.out);
    }
    if cert {
        match report::certificate(&r.out) {
            Ok(n) => println!("  consistency certificate: OK ({} events satisfy the C++20 axioms checked)", n),
            Err(e) => {
                println!("  consistency certificate: FAILED: {}", e);
                return 2;
            }
        }
    }
    for m in marks::all() {
        println!("  marker: {}", m);
    }
    match &r.failure {
        Some((k, m)) => {
            println!("  verdict: {} — {}", k, m);
            if *k == rf.oracle {
                println!("  reproduced: same oracle as recorded");
                1
            } else {
                println!("  DIFFERENT oracle than recorded ({})", rf.oracle);
                3
            }
        }
        None => {
            println!("  no violation in this replay (inconclusive: {:?})", r.inconclusive);
            0
        }
    }
}

fn main() {
    let args: Vec<String> = std::env::args().skip(1).collect();
    // A panic outside an execution is a harness bug: leak the simulated world (its destructors
    // must not run at process exit) and report.
    let default_hook = std::panic::take_hook();
    std::panic::set_hook(Box::new(move |info| {
        default_hook(info);
    }));
    if args.is_empty() {
        eprintln!("usage: asim run|worker|replay|selftest|gen ...");
        std::process::exit(2);
    }
    let code = match args[0].as_str() {
        "worker" => {
            cmd_worker(&args[1..]);
            0
        }
        "replay" => cmd_replay(&args[1..]),
        "run" => report::cmd_run(&args[1..]),
        "selftest" => report::cmd_selftest(&args[1..]),
        "gen" => {
            let es: u64 = args[2].parse().unwrap();
            let weak = args.get(3).map(|s| s == "weak").unwrap_or(false);
            let (case, _) = case_for(&args[1], false, weak, es);
            println!("{}", serde_json::to_string_pretty(&case).unwrap());
            0
        }
        _ => {
            eprintln!("unknown command");
            2
        }
    };
    let _ = DecKind::Sched;
    world::leak_all();
    std::process::exit(code);
}
