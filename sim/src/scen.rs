//! Per-property scenario generation (workload mix, fault mix, scheduler, bounds) and the
//! serialisable run configuration.

use crate::interp::{READ_OPS, WRITE_OPS};
use crate::program::*;
use serde::{Deserialize, Serialize};
use verif_rt::core::{Config, MemMode, Rng, SchedKind};

#[derive(Clone, Debug, Serialize, Deserialize, PartialEq)]
pub enum SchedCfg {
    Random,
    Burst { stay: u32 },
    Pct { depth: u32, est_len: u32 },
    /// victim = program thread index
    Adversary { victim: u8, k: u32 },
}

#[derive(Clone, Debug, Serialize, Deserialize)]
pub struct RunCfg {
    pub mode: String,
    pub sched: SchedCfg,
    pub p_fresh: u32,
    pub p_spurious: u32,
    pub p_fast_slot_refused: u32,
    pub p_reuse: u32,
    pub max_steps: u64,
    pub probe_rate: u32,
    pub probe_max: u32,
    pub probe_ops: u32,
    pub probe_cap_base: u64,
    pub probe_cap_per_node: u64,
    pub meter_ops: u32,
    pub meter_bound: u64,
    pub tls_lifo: bool,
    pub history: usize,
    pub p_switch_after_mark: u32,
    #[serde(default)]
    pub p_stall_after_mark: u32,
    #[serde(default)]
    pub p_stall_any: u32,
}

impl RunCfg {
    pub fn is_weak(&self) -> bool {
        self.mode == "weak"
    }
    /// `victim_tid`: simulator thread id of the adversary's victim (resolved by the caller:
    /// top-level workers are spawned in program order, so program thread t has tid t).
    pub fn to_rt(&self) -> Config {
        Config {
            mode: if self.is_weak() { MemMode::Weak } else { MemMode::Sc },
            sched: match &self.sched {
                SchedCfg::Random => SchedKind::Random,
                SchedCfg::Burst { stay } => SchedKind::Burst { stay: *stay },
                SchedCfg::Pct { depth, est_len } => SchedKind::Pct {
                    depth: *depth,
                    est_len: *est_len,
                },
                SchedCfg::Adversary { victim, k } => SchedKind::Adversary {
                    victim: *victim as usize,
                    k: *k,
                },
            },
            p_fresh: self.p_fresh,
            p_spurious: self.p_spurious,
            p_buggify: [self.p_fast_slot_refused, 0, 0, 0],
            p_reuse: self.p_reuse,
            max_steps: self.max_steps,
            probe_rate: self.probe_rate,
            probe_max: self.probe_max,
            probe_ops: self.probe_ops,
            probe_cap_base: self.probe_cap_base,
            probe_cap_per_node: self.probe_cap_per_node,
            meter_ops: self.meter_ops,
            meter_bound: self.meter_bound,
            tls_lifo: self.tls_lifo,
            history: self.history,
            p_switch_after_mark: self.p_switch_after_mark,
            p_stall_after_mark: self.p_stall_after_mark,
            p_stall_any: self.p_stall_any,
        }
    }
}

#[derive(Clone, Debug, Serialize, Deserialize)]
pub struct Case {
    pub cfg: RunCfg,
    pub prog: Program,
}

fn choose<T: Copy>(rng: &mut Rng, xs: &[T]) -> T {
    xs[rng.below(xs.len() as u64) as usize]
}

/// Swarm-style configuration: every run draws its own scheduler, fault rates and knobs.
pub fn swarm_cfg(rng: &mut Rng, weak: bool) -> RunCfg {
    let sched = match rng.below(5) {
        0 => SchedCfg::Random,
        1 => SchedCfg::Burst {
            stay: 150 + rng.below(100) as u32,
        },
        _ => SchedCfg::Pct {
            depth: 1 + rng.below(4) as u32,
            est_len: 40 + rng.below(400) as u32,
        },
    };
    RunCfg {
        mode: if weak { "weak".into() } else { "sc".into() },
        sched,
        p_fresh: 128 + rng.below(116) as u32,
        p_spurious: choose(rng, &[0, 0, 26, 77]),
        p_fast_slot_refused: choose(rng, &[0, 0, 48, 140]),
        p_reuse: choose(rng, &[0, 128, 230]),
        max_steps: 20_000,
        probe_rate: 0,
        probe_max: 0,
        probe_ops: 0,
        probe_cap_base: 200,
        probe_cap_per_node: 80,
        meter_ops: READ_OPS,
        meter_bound: 120,
        tls_lifo: rng.below(4) != 0,
        history: 4 + rng.below(5) as usize,
        p_switch_after_mark: choose(rng, &[0, 64, 160]),
        p_stall_after_mark: choose(rng, &[0, 0, 24, 80]),
        p_stall_any: choose(rng, &[0, 0, 0, 6, 20]),
    }
}

pub const ALL_A: [CKind; 4] = [CKind::AD, CKind::AF, CKind::OD, CKind::OF];
pub const ALL_KINDS: [CKind; 6] = [CKind::AD, CKind::AF, CKind::OD, CKind::OF, CKind::BD, CKind::BF];

fn base_params(rng: &mut Rng, thorough: bool) -> GenParams {
    let mut p = GenParams::default();
    p.max_threads = if thorough { 4 } else { 3 };
    p.max_ops = if thorough { 7 } else { 5 };
    // a third of the runs start with many guards held, so the fast slots run out
    p.max_prehold = choose(rng, &[0, 0, 3, 10]);
    p
}

pub const PROPS: [&str; 16] = [
    "C01", "C02", "C03", "C04", "C05", "C06", "C07", "C08", "C09", "C10", "C11", "C12", "C13", "C16", "C17", "C18",
];

/// Generates one case for `prop`.
pub fn gen_case(prop: &str, thorough: bool, weak: bool, rng: &mut Rng) -> Case {
    let mut cfg = swarm_cfg(rng, weak);
    let mut p = base_params(rng, thorough);
    match prop {
        "C01" => {
            p.w_send_guard = 4;
            p.w_release = 2;
            p.w_into_inner = 2;
        }
        "C02" => {
            p.w_guard_into_inner = 10;
            p.w_cas = 14;
            p.w_rcu = 10;
            p.w_release = 3;
            p.w_into_inner = 3;
            p.w_barrier = 2;
            p.w_handle = 8;
        }
        "C03" => {
            p.w_load = 25;
            p.w_load_drop = 20;
            p.w_load_full = 15;
            p.same_value_again = rng.below(3) == 0;
            p.w_barrier = 2;
            p.max_conts = 1;
        }
        "C04" => {
            p.w_store = 20;
            p.w_swap = 25;
            p.w_cas = 10;
            p.w_rcu = 8;
            p.w_load = 8;
            p.w_load_drop = 5;
            p.max_conts = 1;
            p.w_into_inner = 2;
        }
        "C05" => {
            p.w_cas = 45;
            p.w_store = 12;
            p.w_swap = 8;
            p.w_load = 10;
            p.w_handle = 8;
            p.same_value_again = true;
            p.max_conts = 1;
            cfg.p_reuse = choose(rng, &[128, 230, 230]);
            cfg.p_spurious = choose(rng, &[0, 40, 100]);
        }
        "C06" => {
            p.w_rcu = 45;
            p.w_store = 8;
            p.w_swap = 6;
            p.w_cas = 6;
            p.max_conts = 2;
            cfg.p_spurious = choose(rng, &[0, 40, 100]);
        }
        "C07" => {
            p.w_send_guard = 6;
            p.w_load_full = 12;
            p.w_swap = 14;
            p.w_check_guard = 8;
        }
        "C09" => {
            cfg.probe_rate = choose(rng, &[40, 120, 400]);
            cfg.probe_max = 3;
            cfg.probe_ops = WRITE_OPS;
            p.w_release = 2;
            p.w_into_inner = 2;
            p.w_cas = 12;
            p.w_rcu = 10;
            p.w_guard_into_inner = 6;
            p.max_prehold = choose(rng, &[0, 4, 12]);
        }
        "C10" => {
            p.max_prehold = choose(rng, &[0, 6, 12, 14]);
            p.w_send_guard = 12;
            p.w_check_guard = 14;
            p.w_release = 4;
            p.w_into_inner = 3;
            p.w_spawn = 4;
            p.w_guard_from_inner = 3;
            p.w_load = 28;
        }
        "C11" => {
            p.w_spawn = 14;
            p.w_tls = 8;
            p.w_send_guard = 4;
            p.min_threads = 1;
        }
        "C12" => {
            p.weak_containers = true;
            p.max_conts = 3;
            p.kinds = ALL_KINDS.to_vec();
            p.shared_values = true;
            cfg.p_fast_slot_refused = choose(rng, &[48, 140, 200]);
            if rng.below(2) == 0 {
                p.kinds = vec![CKind::AF, CKind::OF, CKind::BF, CKind::AD];
            }
        }
        "C13" => {
            p.w_setgen = 14;
            p.kinds = vec![CKind::AF, CKind::OF, CKind::AF, CKind::AD];
            cfg.p_fast_slot_refused = choose(rng, &[0, 140, 220]);
            p.w_load = 25;
            p.w_load_drop = 20;
        }
        "C18" => {
            if rng.below(2) == 0 {
                // destructor panics on the helping path need the fallback
                p.kinds = vec![CKind::AF, CKind::OF, CKind::AD];
                cfg.p_fast_slot_refused = choose(rng, &[0, 140, 220]);
            }
            p.w_arm_panic = 10;
            p.w_rcu_panic = 60;
            p.w_rcu = 18;
            p.w_handle = 8;
            p.w_load_full = 10;
        }
        _ => {}
    }
    if thorough && prop != "C03" && prop != "C04" && prop != "C05" {
        p.max_conts = p.max_conts.max(2);
    }
    let mut prog = gen_program(rng, &p);
    match prop {
        "C08" => {
            return gen_c08(rng, weak, thorough);
        }
        "C13" if rng.below(3) == 0 => return gen_c13_nested_wrap(rng, cfg, thorough),
        "C13" => {
            // make sure the wrap is actually reached: a SetGen followed by fallback loads
            let nt = prog.threads.len();
            let t = 1 + rng.below((nt - 1) as u64) as usize;
            let c = rng.below(prog.conts.len() as u64) as u8;
            let off = 1 + rng.below(3) as i32;
            let mut ops = vec![Op::LoadDrop { c }, Op::SetGen { off }];
            for i in 0..(off + 1 + rng.below(3) as i32) {
                if rng.below(3) == 0 {
                    ops.push(Op::Load { c, g: (i % 4) as u8 });
                } else {
                    ops.push(Op::LoadDrop { c });
                }
            }
            let at = rng.below(prog.threads[t].ops.len() as u64 + 1) as usize;
            for (i, o) in ops.into_iter().enumerate() {
                prog.threads[t].ops.insert(at + i, o);
            }
        }
        "C11" if rng.below(3) == 0 => return gen_c11_readonly(rng, cfg, thorough),
        "C11" | "C03" if rng.below(6) == 0 => return gen_cooldown_outlived(rng, cfg, thorough),
        "C07" | "C01" | "C03" if rng.below(4) == 0 => return gen_aba_storm(rng, cfg, thorough),
        "C07" | "C10" if rng.below(5) == 0 => return gen_guard_roundtrip(rng, cfg, thorough),
        "C10" | "C06" | "C02" if rng.below(8) == 0 => return gen_reentrant_destructors(rng, cfg, thorough),
        "C12" | "C03" if rng.below(6) == 0 => return gen_alternating_fallback(rng, cfg, thorough),
        "C18" if rng.below(5) == 0 => {
            // user code inside the library that is not a destructor: projections of Map /
            // MapCache, made to panic on their k-th call
            let mut case = if rng.below(2) == 0 {
                crate::extras::gen_c17(rng, cfg, thorough)
            } else {
                crate::extras::gen_c16(rng, cfg, thorough)
            };
            let n_conts = case.prog.conts.len() as u64;
            for t in case.prog.threads.iter_mut().skip(1) {
                if t.ops.is_empty() || rng.below(3) == 0 {
                    continue;
                }
                for _ in 0..(1 + rng.below(2)) {
                    let at = rng.below(t.ops.len() as u64 + 1) as usize;
                    // either a projection panics on its k-th call, or the destructor of the value
                    // stored right now does (a cache or a projection guard may be its last owner)
                    let op = if rng.below(3) == 0 {
                        Op::ArmStored {
                            c: rng.below(n_conts) as u8,
                        }
                    } else {
                        Op::ArmProjPanic {
                            k: 1 + rng.below(3) as u8,
                        }
                    };
                    t.ops.insert(at, op);
                }
            }
            return case;
        }
        // ownership accounting also covers what caches and projection guards hold
        "C02" if rng.below(8) == 0 => return crate::extras::gen_c16(rng, cfg, thorough),
        "C02" if rng.below(10) == 0 => return crate::extras::gen_c17(rng, cfg, thorough),
        "C16" => return crate::extras::gen_c16(rng, cfg, thorough),
        "C17" => return crate::extras::gen_c17(rng, cfg, thorough),
        _ => {}
    }
    if matches!(prop, "C02" | "C04" | "C10" | "C17") && rng.below(6) == 0 && prog.threads.len() > 1 {
        // the Arc-only corner of the API (from_pointee, empty, Default, From, Debug/Display,
        // ArcSwapAny::map, Cache::from), with real std Arcs, on this thread's node
        let t = 1 + rng.below(prog.threads.len() as u64 - 1) as usize;
        let at = rng.below(prog.threads[t].ops.len() as u64 + 1) as usize;
        prog.threads[t].ops.insert(at, Op::StdArc { variant: rng.below(6) as u8 });
    }
    Case { cfg, prog }
}

/// C08: a victim that has already used the crate performs loads while (a) an adversary
/// completes k whole writes between any two of its steps, or (b) everybody else is frozen.
fn gen_c08(rng: &mut Rng, weak: bool, thorough: bool) -> Case {
    let mut cfg = swarm_cfg(rng, weak);
    let kind = choose(rng, &ALL_A);
    let conts = vec![ContSpec { kind, init: Init::New }];
    let n_writers = 1 + rng.below(if thorough { 3 } else { 2 }) as usize;
    let victim = 1usize;
    let held = choose(rng, &[0usize, 0, 3, 8, 12]);
    let mut vops = vec![Op::LoadDrop { c: 0 }]; // first use on this thread: excluded from the bound
    for i in 0..held {
        vops.push(Op::Load {
            c: 0,
            g: N_G + i as u8,
        });
    }
    if rng.below(4) == 0 {
        // the wrap-around of the thread's transaction counter falls among the measured loads (it
        // costs a node hand-over, still a bounded number of own steps and no waiting)
        vops.push(Op::SetGen {
            off: 1 + rng.below(3) as i32,
        });
    }
    let n_loads = 2 + rng.below(4) as usize;
    for i in 0..n_loads {
        match rng.below(3) {
            0 => vops.push(Op::Load { c: 0, g: (i % 4) as u8 }),
            1 => vops.push(Op::LoadFull { c: 0, h: (i % 3) as u8 }),
            _ => vops.push(Op::LoadDrop { c: 0 }),
        }
    }
    let mut threads = vec![ThreadProg::default()];
    threads.push(ThreadProg { ops: vops, top: true });
    for _ in 0..n_writers {
        let mut body = Vec::new();
        for _ in 0..(1 + rng.below(2)) {
            body.push(match rng.below(4) {
                0 => Op::Store { c: 0, v: V::New },
                1 => Op::Swap { c: 0, v: V::New, h: 0 },
                2 => Op::Rcu {
                    c: 0,
                    r: RcuSpec::default(),
                    h: 1,
                },
                _ => Op::Cas {
                    c: 0,
                    cur: Cur::Stored,
                    form: 3,
                    v: V::New,
                    g: 0,
                },
            });
        }
        threads.push(ThreadProg {
            ops: vec![Op::Loop {
                ops: body,
                until: victim as u8,
                max: 40,
            }],
            top: true,
        });
    }
    cfg.meter_ops = READ_OPS;
    cfg.meter_bound = 120;
    cfg.max_steps = 40_000;
    if rng.below(2) == 0 {
        cfg.sched = SchedCfg::Adversary {
            victim: victim as u8,
            k: 1 + rng.below(3) as u32,
        };
    } else {
        cfg.probe_rate = choose(rng, &[100, 400, 1200]);
        cfg.probe_max = 4;
        cfg.probe_ops = READ_OPS;
        cfg.probe_cap_base = 120;
        cfg.probe_cap_per_node = 0;
    }
    Case {
        cfg,
        prog: Program {
            conts,
            threads,
            final_order: rng.below(16) as u8,
        },
    }
}

/// C11 (bound): rounds of short-lived reader threads separated by joins, no writer anywhere.
fn gen_c11_readonly(rng: &mut Rng, cfg: RunCfg, thorough: bool) -> Case {
    let kind = choose(rng, &ALL_A);
    let conts = vec![ContSpec { kind, init: Init::New }];
    let rounds = 2 + rng.below(if thorough { 6 } else { 4 }) as usize;
    let mut threads = vec![ThreadProg::default()];
    let mut main_ops = Vec::new();
    if rng.below(2) == 0 {
        main_ops.push(Op::LoadDrop { c: 0 });
    }
    for _ in 0..rounds {
        let k = 1 + rng.below(2) as usize;
        let mut ids = Vec::new();
        for _ in 0..k {
            let mut ops = Vec::new();
            if rng.below(3) == 0 {
                ops.push(Op::TlsOp {
                    ops: vec![Op::LoadDrop { c: 0 }],
                });
            }
            for i in 0..(1 + rng.below(3)) {
                ops.push(match rng.below(3) {
                    0 => Op::Load { c: 0, g: i as u8 },
                    1 => Op::LoadFull { c: 0, h: i as u8 },
                    _ => Op::LoadDrop { c: 0 },
                });
            }
            if rng.below(4) == 0 {
                ops.push(Op::TlsOp {
                    ops: vec![Op::LoadDrop { c: 0 }],
                });
            }
            threads.push(ThreadProg { ops, top: false });
            ids.push((threads.len() - 1) as u8);
        }
        for t in ids.iter() {
            main_ops.push(Op::Spawn { t: *t });
        }
        if rng.below(3) == 0 {
            main_ops.push(Op::LoadDrop { c: 0 });
        }
        for t in ids.iter() {
            main_ops.push(Op::Join { t: *t });
        }
    }
    threads[0].ops = main_ops;
    Case {
        cfg,
        prog: Program {
            conts,
            threads,
            final_order: rng.below(16) as u8,
        },
    }
}

/// One container, one or two readers that only load, two writers that only store fresh values,
/// aggressive address reuse: the window between a reader's unprotected first read and its
/// confirmation sees the value die and its address come back (ABA within one container).
fn gen_aba_storm(rng: &mut Rng, mut cfg: RunCfg, thorough: bool) -> Case {
    let kind = choose(rng, &[CKind::AD, CKind::OD, CKind::AD]);
    let conts = vec![ContSpec { kind, init: Init::New }];
    let mut threads = vec![ThreadProg::default()];
    let n_readers = 1 + rng.below(2) as usize;
    for _ in 0..n_readers {
        let mut ops = Vec::new();
        for i in 0..(2 + rng.below(if thorough { 4 } else { 3 })) {
            ops.push(match rng.below(4) {
                0 => Op::Load { c: 0, g: (i % 4) as u8 },
                1 => Op::LoadFull { c: 0, h: (i % 3) as u8 },
                _ => Op::LoadDrop { c: 0 },
            });
        }
        threads.push(ThreadProg { ops, top: true });
    }
    for _ in 0..2 {
        let mut ops = Vec::new();
        for _ in 0..(2 + rng.below(if thorough { 5 } else { 3 })) {
            ops.push(if rng.below(4) == 0 {
                Op::Swap { c: 0, v: V::New, h: 0 }
            } else {
                Op::Store { c: 0, v: V::New }
            });
        }
        threads.push(ThreadProg { ops, top: true });
    }
    cfg.p_reuse = 240;
    cfg.p_fast_slot_refused = 0;
    cfg.p_switch_after_mark = choose(rng, &[64, 160, 220]);
    Case {
        cfg,
        prog: Program {
            conts,
            threads,
            final_order: rng.below(16) as u8,
        },
    }
}

/// C07 / C10 (guard round trip): a guard is created by a thread that later writes, is handed to
/// a second thread which reads through it and gives the borrow back (into the FIRST thread's
/// node), and the value's last reference is dropped by a third thread after the write. The only
/// happens-before path from the second thread's read to the destructor runs through the slot.
fn gen_guard_roundtrip(rng: &mut Rng, mut cfg: RunCfg, thorough: bool) -> Case {
    let kind = choose(rng, &[CKind::AD, CKind::OD, CKind::AD, CKind::AF]);
    let conts = vec![
        ContSpec { kind, init: Init::New },
        ContSpec { kind: CKind::AD, init: Init::New },
    ];
    let mut threads = vec![ThreadProg::default()];
    // 1: the writer that lends its guard out
    let mut w = vec![Op::LoadDrop { c: 0 }];
    let n_g = 1 + rng.below(2) as u8;
    for g in 0..n_g {
        w.push(Op::Load { c: 0, g });
    }
    for g in 0..n_g {
        w.push(Op::SendGuard { g, to: 2 });
    }
    for _ in 0..rng.below(4) {
        w.push(Op::LoadDrop { c: 1 });
    }
    for _ in 0..(1 + rng.below(if thorough { 3 } else { 2 })) {
        w.push(match rng.below(4) {
            0 => Op::Swap { c: 0, v: V::New, h: 0 },
            1 => Op::Cas { c: 0, cur: Cur::Stored, form: 3, v: V::New, g: 5 },
            _ => Op::Store { c: 0, v: V::New },
        });
    }
    threads.push(ThreadProg { ops: w, top: true });
    // 2: the borrower: polls its mailbox while the writer runs, reads and drops what arrives
    threads.push(ThreadProg {
        ops: vec![Op::Loop {
            ops: vec![Op::RecvDrop, Op::LoadDrop { c: 1 }],
            until: 1,
            max: 12,
        }],
        top: true,
    });
    // 3: holds a full reference taken early and drops it after the writer is done
    threads.push(ThreadProg {
        ops: vec![
            Op::LoadFull { c: 0, h: 0 },
            Op::Loop {
                ops: vec![Op::LoadDrop { c: 1 }],
                until: 1,
                max: 40,
            },
            Op::DropHandle { h: 0 },
        ],
        top: true,
    });
    cfg.p_fast_slot_refused = choose(rng, &[0, 0, 48]);
    cfg.p_switch_after_mark = choose(rng, &[0, 64, 160]);
    Case {
        cfg,
        prog: Program {
            conts,
            threads,
            final_order: rng.below(16) as u8,
        },
    }
}

/// C12 / C03 (alternating slow-path loads): readers whose every load takes the helping path
/// alternate between two or three fallback-only containers while one writer per container keeps
/// storing. A helper that is slow between looking at the reader's announced address and
/// re-checking its control word meets the reader two transactions later, on the first container
/// again.
fn gen_alternating_fallback(rng: &mut Rng, mut cfg: RunCfg, thorough: bool) -> Case {
    let n_conts = 2 + rng.below(2) as usize;
    let kinds = [CKind::AF, CKind::BF, CKind::OF];
    let conts: Vec<ContSpec> = (0..n_conts)
        .map(|i| ContSpec {
            kind: kinds[(i + rng.below(3) as usize) % 3],
            init: Init::New,
        })
        .collect();
    let mut threads = vec![ThreadProg::default()];
    let n_readers = 1 + rng.below(2) as usize;
    for _ in 0..n_readers {
        let mut ops = Vec::new();
        let start = rng.below(n_conts as u64) as usize;
        for i in 0..(4 + rng.below(if thorough { 6 } else { 4 }) as usize) {
            let c = ((start + i) % n_conts) as u8;
            ops.push(match rng.below(4) {
                0 => Op::Load { c, g: (i % 4) as u8 },
                1 => Op::LoadFull { c, h: (i % 3) as u8 },
                _ => Op::LoadDrop { c },
            });
        }
        threads.push(ThreadProg { ops, top: true });
    }
    for c in 0..n_conts {
        let mut ops = Vec::new();
        for _ in 0..(1 + rng.below(3)) {
            ops.push(if rng.below(4) == 0 {
                Op::Swap { c: c as u8, v: V::New, h: 0 }
            } else {
                Op::Store { c: c as u8, v: V::New }
            });
        }
        threads.push(ThreadProg { ops, top: true });
    }
    cfg.p_stall_after_mark = choose(rng, &[24, 80, 120]);
    cfg.p_stall_any = choose(rng, &[0, 6, 20]);
    cfg.p_switch_after_mark = choose(rng, &[0, 64]);
    cfg.p_fresh = choose(rng, &[128, 160, 192]);
    Case {
        cfg,
        prog: Program {
            conts,
            threads,
            final_order: rng.below(16) as u8,
        },
    }
}

/// C10 / C06 / C02 (re-entrancy from destructors): the destructor of a stored value itself stores
/// into (or loads from) another container. It runs wherever the last count goes: inside a store,
/// a rejected or successful compare_and_swap, an rcu retry, a guard or handle drop — i.e. a write
/// nested inside another operation of the crate on the same thread, while that thread may hold
/// guards on the other container's value.
fn gen_reentrant_destructors(rng: &mut Rng, mut cfg: RunCfg, thorough: bool) -> Case {
    let k0 = choose(rng, &[CKind::AD, CKind::OD, CKind::AF]);
    let k1 = choose(rng, &[CKind::AD, CKind::AD, CKind::OD]);
    let conts = vec![ContSpec { kind: k0, init: Init::New }, ContSpec { kind: k1, init: Init::New }];
    let mut threads = vec![ThreadProg::default()];
    let n_workers = 1 + rng.below(if thorough { 3 } else { 2 }) as usize;
    for _ in 0..n_workers {
        let mut ops = Vec::new();
        // guards on the value of the container the destructors will write into
        for g in 0..rng.below(3) as u8 {
            ops.push(Op::Load { c: 1, g });
        }
        for _ in 0..(1 + rng.below(3)) {
            ops.push(Op::ArmDropOp {
                c: 0,
                into: 1,
                load: rng.below(4) == 0,
            });
            ops.push(match rng.below(5) {
                0 => Op::Swap { c: 0, v: V::New, h: 0 },
                1 => Op::Cas {
                    c: 0,
                    cur: Cur::Stored,
                    form: 3,
                    v: V::New,
                    g: 5,
                },
                2 => Op::Rcu {
                    c: 0,
                    r: RcuSpec {
                        interfere: rng.below(2) as u8,
                        ..RcuSpec::default()
                    },
                    h: 1,
                },
                _ => Op::Store { c: 0, v: V::New },
            });
            if rng.below(2) == 0 {
                ops.push(Op::DropHandle { h: rng.below(2) as u8 });
            }
            if rng.below(3) == 0 {
                ops.push(Op::DropGuard { g: 5 });
            }
        }
        for g in 0..3u8 {
            if rng.below(2) == 0 {
                ops.push(Op::CheckGuard { g });
            }
        }
        if rng.below(2) == 0 {
            ops.push(Op::Store { c: 1, v: V::New });
        }
        threads.push(ThreadProg { ops, top: true });
    }
    cfg.p_fast_slot_refused = choose(rng, &[0, 0, 48]);
    Case {
        cfg,
        prog: Program {
            conts,
            threads,
            final_order: rng.below(16) as u8,
        },
    }
}

/// C11 / C03 (a cooldown outlived): fallback-only containers; short-lived reader threads are
/// started one after another without waiting for each other, so that a starting thread can be
/// in the middle of deciding that a released node's cooldown is over while that very node is
/// claimed by a second thread, used, and released again with a writer (who has seen the second
/// thread's generation) still inside it.
fn gen_cooldown_outlived(rng: &mut Rng, mut cfg: RunCfg, thorough: bool) -> Case {
    let kind = choose(rng, &[CKind::AF, CKind::OF, CKind::BF]);
    let conts = vec![ContSpec { kind, init: Init::New }];
    let mut threads = vec![ThreadProg::default()];
    let mut main_ops = vec![Op::LoadDrop { c: 0 }];
    // the first tenant: gives the node its first cooldown
    threads.push(ThreadProg {
        ops: vec![Op::LoadDrop { c: 0 }],
        top: false,
    });
    main_ops.push(Op::Spawn { t: 1 });
    main_ops.push(Op::Join { t: 1 });
    // later tenants and checkers: one or two slow-path loads each, all started at once
    let n = 2 + rng.below(if thorough { 3 } else { 2 }) as usize;
    let mut ids = Vec::new();
    for _ in 0..n {
        let mut ops = Vec::new();
        for _ in 0..(1 + rng.below(2)) {
            ops.push(if rng.below(3) == 0 {
                Op::LoadFull { c: 0, h: 0 }
            } else {
                Op::LoadDrop { c: 0 }
            });
        }
        threads.push(ThreadProg { ops, top: false });
        ids.push((threads.len() - 1) as u8);
    }
    // writers: they own nodes of their own (first operation) and then keep storing
    for _ in 0..(1 + rng.below(2)) {
        let mut ops = vec![Op::LoadDrop { c: 0 }];
        for _ in 0..(2 + rng.below(3)) {
            ops.push(Op::Store { c: 0, v: V::New });
        }
        threads.push(ThreadProg { ops, top: false });
        ids.push((threads.len() - 1) as u8);
    }
    // start order is itself shuffled
    for i in (1..ids.len()).rev() {
        let j = rng.below(i as u64 + 1) as usize;
        ids.swap(i, j);
    }
    for t in ids.iter() {
        main_ops.push(Op::Spawn { t: *t });
    }
    for t in ids.iter() {
        main_ops.push(Op::Join { t: *t });
    }
    threads[0].ops = main_ops;
    cfg.p_stall_after_mark = choose(rng, &[80, 120, 160]);
    cfg.p_stall_any = choose(rng, &[0, 6]);
    cfg.p_switch_after_mark = choose(rng, &[0, 64]);
    cfg.p_fast_slot_refused = 0;
    Case {
        cfg,
        prog: Program {
            conts,
            threads,
            final_order: rng.below(16) as u8,
        },
    }
}

/// C13 (nested wrap): fallback-only containers; a writer whose generation counter is preset so
/// that its *next* fallback load wraps performs stores while readers sit in their read-intent
/// window (so the writer helps them, and the helping load is the one that wraps), and further
/// threads start at that moment (they claim the node the writer has just retired).
fn gen_c13_nested_wrap(rng: &mut Rng, mut cfg: RunCfg, thorough: bool) -> Case {
    let kind = choose(rng, &[CKind::AF, CKind::OF]);
    let conts = vec![ContSpec { kind, init: Init::New }];
    let mut threads = vec![ThreadProg::default()];
    let n_readers = 1 + rng.below(2) as usize;
    for _ in 0..n_readers {
        let mut ops = Vec::new();
        for i in 0..(2 + rng.below(3)) {
            ops.push(if rng.below(4) == 0 {
                Op::Load { c: 0, g: (i % 4) as u8 }
            } else {
                Op::LoadDrop { c: 0 }
            });
        }
        threads.push(ThreadProg { ops, top: true });
    }
    // the wrapping writer
    let mut w = Vec::new();
    if rng.below(2) == 0 {
        w.push(Op::LoadDrop { c: 0 });
    }
    w.push(Op::SetGen { off: 1 });
    for _ in 0..(1 + rng.below(if thorough { 4 } else { 3 })) {
        w.push(match rng.below(4) {
            0 => Op::Swap { c: 0, v: V::New, h: 0 },
            1 => Op::Rcu {
                c: 0,
                r: RcuSpec::default(),
                h: 1,
            },
            _ => Op::Store { c: 0, v: V::New },
        });
    }
    w.push(Op::LoadDrop { c: 0 });
    threads.push(ThreadProg { ops: w, top: true });
    // late starters: claim whatever node is free, write and read
    for _ in 0..(1 + rng.below(2)) {
        let mut ops = Vec::new();
        for _ in 0..(1 + rng.below(3)) {
            ops.push(if rng.below(2) == 0 {
                Op::Store { c: 0, v: V::New }
            } else {
                Op::LoadDrop { c: 0 }
            });
        }
        threads.push(ThreadProg { ops, top: true });
    }
    cfg.p_switch_after_mark = choose(rng, &[64, 160, 220]);
    cfg.p_fast_slot_refused = 0;
    Case {
        cfg,
        prog: Program {
            conts,
            threads,
            final_order: rng.below(16) as u8,
        },
    }
}
