//! The registered check (`asim run`): worker processes, aggregation, minimisation, known
//! findings, evidence file; the determinism self-test; event printing and the axiomatic
//! consistency certificate for weak-memory replays.

use crate::minimise::minimise;
use crate::{replay_file, ReplayFile, WorkerSummary, DEFAULT_SEED};
use serde::{Deserialize, Serialize};
use std::collections::{BTreeMap, BTreeSet};
use std::io::Read;
use std::process::{Command, Stdio};
use std::time::Instant;
use verif_rt::core::{self as rt, Event, OpK, Outcome};

fn verif_dir() -> String {
    std::env::var("ASIM_DIR").unwrap_or_else(|_| "/verif".to_string())
}

fn seed_from_env() -> u64 {
    std::env::var("VERIF_SEED")
        .ok()
        .and_then(|s| s.trim().parse::<u64>().ok())
        .unwrap_or(DEFAULT_SEED)
}

struct Budget {
    workers: u64,
    execs_per_worker: u64,
    secs: f64,
}

fn budget(prop: &str, thorough: bool) -> Budget {
    let env_execs = std::env::var("ASIM_EXECS").ok().and_then(|s| s.parse::<u64>().ok());
    let env_secs = std::env::var("ASIM_SECS").ok().and_then(|s| s.parse::<f64>().ok());
    let workers = std::env::var("ASIM_WORKERS")
        .ok()
        .and_then(|s| s.parse::<u64>().ok())
        .unwrap_or(16);
    let (mut e, mut s) = if thorough { (1_500_000, 480.0) } else { (60_000, 22.0) };
    if prop == "C08" {
        e /= 2;
    }
    if let Some(x) = env_execs {
        e = x;
    }
    if let Some(x) = env_secs {
        s = x;
    }
    Budget {
        workers,
        execs_per_worker: e,
        secs: s,
    }
}

fn run_workers(prop: &str, tier: &str, seed: u64, b: &Budget, outdir: &str) -> Result<Vec<WorkerSummary>, String> {
    let exe = std::env::current_exe().map_err(|e| e.to_string())?;
    let mut children = Vec::new();
    for wk in 0..b.workers {
        let mode = if wk % 2 == 0 { "sc" } else { "weak" };
        let child = Command::new(&exe)
            .args([
                "worker",
                prop,
                tier,
                &seed.to_string(),
                &wk.to_string(),
                mode,
                &b.execs_per_worker.to_string(),
                &b.secs.to_string(),
                outdir,
            ])
            .stdout(Stdio::piped())
            .stderr(Stdio::piped())
            .spawn()
            .map_err(|e| format!("spawn worker: {}", e))?;
        children.push((wk, child));
    }
    let mut out = Vec::new();
    let deadline = Instant::now() + std::time::Duration::from_secs_f64(b.secs * 3.0 + 120.0);
    for (wk, mut ch) in children {
        // drain stdout/stderr on helper threads so a chatty child cannot block on a full pipe
        let so_h = ch.stdout.take().map(|mut o| {
            std::thread::spawn(move || {
                let mut s = String::new();
                let _ = o.read_to_string(&mut s);
                s
            })
        });
        let se_h = ch.stderr.take().map(|mut e| {
            std::thread::spawn(move || {
                let mut s = String::new();
                let _ = e.read_to_string(&mut s);
                s
            })
        });
        let mut hung = false;
        let st = loop {
            match ch.try_wait() {
                Ok(Some(st)) => break st,
                Ok(None) => {
                    if Instant::now() > deadline {
                        hung = true;
                        let _ = ch.kill();
                        break ch.wait().map_err(|e| e.to_string())?;
                    }
                    std::thread::sleep(std::time::Duration::from_millis(20));
                }
                Err(e) => return Err(e.to_string()),
            }
        };
        let so = so_h.map(|h| h.join().unwrap_or_default()).unwrap_or_default();
        let se = se_h.map(|h| h.join().unwrap_or_default()).unwrap_or_default();
        if !st.success() {
            // The worker process died (abort, segfault, stack overflow) or hung inside one
            // execution: capture that execution by its seed.
            let mode = if wk % 2 == 0 { "sc" } else { "weak" };
            let cur = format!("{}/tmp-cur-{}-{}.bin", outdir, prop, wk);
            let es = std::fs::read(&cur).ok().and_then(|b| b.get(..8).map(|x| u64::from_le_bytes(x.try_into().unwrap())));
            let _ = std::fs::remove_file(&cur);
            let Some(es) = es else {
                return Err(format!("worker {} died ({}) before its first execution; stderr: {}", wk, st, se.lines().last().unwrap_or("")));
            };
            let (case, _) = crate::case_for(prop, tier == "thorough", mode == "weak", es);
            let rf = ReplayFile {
                property: prop.to_string(),
                primary_property: "C13".into(),
                oracle: if hung { "hang".into() } else { "crash".into() },
                message: format!(
                    "the worker process {} while running this execution ({}); last stderr line: {}",
                    if hung { "did not finish and was killed" } else { "died" },
                    st,
                    se.lines().last().unwrap_or("")
                ),
                seed,
                exec_seed: es,
                minimised: false,
                n_decisions: 0,
                n_nonzero: 0,
                stale_sites: vec![],
                markers: vec![],
                rng_seed: Some(es ^ crate::RNG_SALT),
                worker_iter: None,
                replay_with_history: false,
                case,
                picks: String::new(),
            };
            let path = format!("{}/tmp-{}-{}-crash-{:016x}.json", outdir, prop, mode, es);
            std::fs::write(&path, serde_json::to_string_pretty(&rf).unwrap()).map_err(|e| e.to_string())?;
            let mut s = WorkerSummary {
                worker: wk,
                mode: mode.into(),
                ..Default::default()
            };
            s.failures.push(path);
            out.push(s);
            continue;
        }
        let line = so.lines().rev().find(|l| l.starts_with('{')).ok_or_else(|| format!("worker {} printed no summary", wk))?;
        let s: WorkerSummary = serde_json::from_str(line).map_err(|e| format!("worker {} summary: {}", wk, e))?;
        out.push(s);
    }
    Ok(out)
}

#[derive(Serialize, Deserialize, Clone, Debug, Default)]
pub struct KnownFinding {
    pub id: String,
    pub property: String,
    pub oracle: Vec<String>,
    #[serde(default)]
    pub message_contains: Option<String>,
    #[serde(default)]
    pub mode: Option<String>,
    /// The minimised replay must contain at least one stale read and all of them must be at
    /// these sites (file:class:kind:ordering).
    #[serde(default)]
    pub stale_sites_within: Option<Vec<String>>,
    /// The minimised program must contain an operation of this name (e.g. "SetGen").
    #[serde(default)]
    pub program_contains: Option<String>,
    /// The failing execution must carry a marker starting with this text.
    #[serde(default)]
    pub marker: Option<String>,
    /// ... and that marker must contain this text.
    #[serde(default)]
    pub marker_contains: Option<String>,
    pub what: String,
}

#[derive(Serialize, Deserialize, Clone, Debug, Default)]
pub struct KnownFile {
    #[serde(default)]
    pub findings: Vec<KnownFinding>,
    #[serde(default)]
    pub fixed: Vec<String>,
}

pub fn load_known() -> KnownFile {
    match std::fs::read_to_string(format!("{}/known_findings.json", verif_dir())) {
        Ok(t) => serde_json::from_str(&t).unwrap_or_default(),
        Err(_) => KnownFile::default(),
    }
}

pub fn matches_known(k: &KnownFinding, rf: &ReplayFile) -> bool {
    if !k.oracle.iter().any(|o| *o == rf.oracle) {
        return false;
    }
    if let Some(m) = &k.message_contains {
        if !rf.message.contains(m.as_str()) {
            return false;
        }
    }
    if let Some(m) = &k.mode {
        if *m != rf.case.cfg.mode {
            return false;
        }
    }
    if let Some(sites) = &k.stale_sites_within {
        if rf.stale_sites.is_empty() || !rf.stale_sites.iter().all(|s| sites.contains(s)) {
            return false;
        }
    }
    if let Some(m) = &k.marker {
        let sub = k.marker_contains.clone().unwrap_or_default();
        if !rf.markers.iter().any(|x| x.starts_with(m.as_str()) && x.contains(sub.as_str())) {
            return false;
        }
    }
    if let Some(p) = &k.program_contains {
        let txt = serde_json::to_string(&rf.case.prog).unwrap_or_default();
        if !txt.contains(p.as_str()) {
            return false;
        }
    }
    true
}

fn merge(into: &mut BTreeMap<String, u64>, from: &BTreeMap<String, u64>) {
    for (k, v) in from {
        *into.entry(k.clone()).or_insert(0) += *v;
    }
}

fn merge_max(into: &mut BTreeMap<String, u64>, from: &BTreeMap<String, u64>) {
    for (k, v) in from {
        let e = into.entry(k.clone()).or_insert(0);
        *e = (*e).max(*v);
    }
}

pub fn level_of(prop: &str) -> &'static str {
    match prop {
        "C13" | "C18" => "fault_enumeration",
        _ => "exploration",
    }
}

pub fn rule_of(prop: &str) -> &'static str {
    match prop {
        "C01" | "C03" | "C07" => "execution = one generated program (threads x operations x containers) run under one seeded schedule/fault sequence; non-trivial iff a writer interfered with a read in flight (fast path saw the pointer change, fallback was helped, help raced) or paid a debt, or a guard changed threads; distinct by fingerprint = hash of the sequence of (thread, location class, operation kind, which store was read) over all atomic steps plus scheduling picks",
        "C02" => "non-trivial iff a debt was paid by a writer (pay_all paid a slot, guard found its debt already paid, Guard::into_inner lost the race, helped-and-paid) or a read was interfered with; distinct by execution fingerprint",
        "C04" => "non-trivial iff at least two different threads completed writes to containers in the run; distinct by execution fingerprint",
        "C05" => "non-trivial iff a compare_and_swap ran and either its internal loop retried or another thread wrote concurrently; distinct by execution fingerprint",
        "C06" => "non-trivial iff some rcu call had to retry (its compare-and-swap lost against another write); distinct by execution fingerprint",
        "C08" => "non-trivial iff the adversary completed whole writes between steps of the metered reader, or a solo probe froze every other thread during a load; distinct by execution fingerprint",
        "C09" => "non-trivial iff a solo probe ran (all other threads frozen at an arbitrary step while a write/drop operation had to finish alone); distinct by execution fingerprint",
        "C10" => "non-trivial iff a guard moved to another thread, the fast slots were exhausted, or a node of an exited thread was re-claimed while guards lived; distinct by execution fingerprint",
        "C11" => "non-trivial iff a node released by an exited thread was re-claimed by another thread or an operation ran after the thread-local was destroyed; distinct by execution fingerprint",
        "C12" => "non-trivial iff a helper met a reader announced on another container, or several containers were in play while reads were interfered with or debts paid; distinct by execution fingerprint",
        "C13" => "counter offsets are enumerated (preset so that the wrap happens on the 1st..3rd following fallback load); non-trivial iff the generation wrap branch was executed; distinct by execution fingerprint",
        "C16" => "non-trivial iff a cache reloaded because the container had changed; distinct by execution fingerprint",
        "C17" => "non-trivial iff a projection guard stayed alive across a completed store; distinct by execution fingerprint",
        "C18" => "panic points (rcu closure attempt k, destructor of an armed value wherever its last count is dropped) are chosen per program; non-trivial iff a user panic actually unwound through the library; distinct by execution fingerprint",
        _ => "distinct by execution fingerprint",
    }
}

pub fn cmd_run(args: &[String]) -> i32 {
    let prop = args[0].clone();
    let tier = args.get(1).cloned().unwrap_or_else(|| "quick".into());
    let thorough = tier == "thorough";
    if !crate::scen::PROPS.contains(&prop.as_str()) {
        eprintln!("property {} has no simulation check (see MANIFEST.json not_applicable)", prop);
        return 2;
    }
    let seed = seed_from_env();
    println!("asim: property={} tier={} VERIF_SEED={}", prop, tier, seed);
    let t0 = Instant::now();
    let b = budget(&prop, thorough);
    let outdir = format!("{}/replays", verif_dir());
    let _ = std::fs::create_dir_all(&outdir);
    let sums = match run_workers(&prop, &tier, seed, &b, &outdir) {
        Ok(s) => s,
        Err(e) => {
            eprintln!("HARNESS-ERROR: {}", e);
            return 2;
        }
    };
    // ---- aggregate
    let mut total = WorkerSummary::default();
    let mut distinct_sum: u64 = 0;
    let mut nfps_all: Vec<u64> = Vec::new();
    let mut by_mode: BTreeMap<String, (u64, u64, u64)> = BTreeMap::new();
    let mut fail_files: Vec<String> = Vec::new();
    let mut samples = Vec::new();
    let mut meter_max = BTreeMap::new();
    let mut wall_workers: f64 = 0.0;
    for s in sums.iter() {
        total.executions += s.executions;
        total.inconclusive += s.inconclusive;
        total.steps += s.steps;
        total.decisions += s.decisions;
        total.ctx_switches += s.ctx_switches;
        total.nontrivial += s.nontrivial;
        total.solo_probes += s.solo_probes;
        total.solo_probe_max_steps = total.solo_probe_max_steps.max(s.solo_probe_max_steps);
        total.ledger_checks += s.ledger_checks;
        total.guard_checks += s.guard_checks;
        total.hist_containers += s.hist_containers;
        total.hist_calls += s.hist_calls;
        total.hist_skipped += s.hist_skipped;
        total.hist_max_len = total.hist_max_len.max(s.hist_max_len);
        total.api_calls += s.api_calls;
        total.user_panics += s.user_panics;
        total.threads_spawned += s.threads_spawned;
        total.max_admissible = total.max_admissible.max(s.max_admissible);
        merge(&mut total.faults, &s.faults);
        merge(&mut total.probes, &s.probes);
        merge(&mut total.solo_by_op, &s.solo_by_op);
        merge(&mut total.inconclusive_reasons, &s.inconclusive_reasons);
        merge(&mut total.extra, &s.extra);
        merge_max(&mut meter_max, &s.meter_max);
        distinct_sum += s.distinct_fingerprints;
        if let Ok(bytes) = std::fs::read(&s.fingerprint_file) {
            for ch in bytes.chunks_exact(8) {
                nfps_all.push(u64::from_le_bytes(ch.try_into().unwrap()));
            }
        }
        let _ = std::fs::remove_file(&s.fingerprint_file);
        let e = by_mode.entry(s.mode.clone()).or_insert((0, 0, 0));
        e.0 += s.executions;
        e.1 += s.nontrivial;
        e.2 += s.steps;
        fail_files.extend(s.failures.iter().cloned());
        if samples.len() < 3 {
            samples.extend(s.samples.iter().take(1).cloned());
        }
        wall_workers = wall_workers.max(s.wall_s);
    }
    nfps_all.sort_unstable();
    nfps_all.dedup();
    let nfps = nfps_all;
    // ---- failures: minimise, verify in a fresh process, match against known findings
    let known = load_known();
    let mut violations: Vec<(ReplayFile, String)> = Vec::new();
    let mut known_hits: BTreeMap<String, (KnownFinding, String)> = BTreeMap::new();
    // sc-mode failures first: they need no memory-model argument
    fail_files.sort_by_key(|f| if f.contains("-sc-") { 0 } else { 1 });
    let mut minimised_budget = 6;
    let mut seen_classes: BTreeSet<String> = BTreeSet::new();
    for f in fail_files.iter() {
        let Ok(txt) = std::fs::read_to_string(f) else { continue };
        let Ok(rf) = serde_json::from_str::<ReplayFile>(&txt) else { continue };
        let class = format!("{}:{}", rf.oracle, rf.case.cfg.mode);
        if minimised_budget == 0 || (seen_classes.contains(&class) && violations.len() + known_hits.len() >= 3) {
            let _ = std::fs::remove_file(f);
            continue;
        }
        minimised_budget -= 1;
        seen_classes.insert(class);
        if rf.rng_seed.is_some() {
            // crash / hang capture: cannot be minimised in-process; confirm it in a fresh process
            let name = format!("{}/{}-{}-{}-{:016x}.json", outdir, rf.property, rf.oracle, rf.case.cfg.mode, rf.exec_seed);
            let _ = std::fs::rename(f, &name);
            let mut ch = Command::new(std::env::current_exe().unwrap())
                .args(["replay", &name])
                .stdout(Stdio::null())
                .stderr(Stdio::null())
                .spawn()
                .expect("spawn replay");
            let t1 = Instant::now();
            let died = loop {
                match ch.try_wait() {
                    Ok(Some(st)) => break st.code().is_none() || st.code() == Some(134) || st.code() == Some(101),
                    Ok(None) => {
                        if t1.elapsed().as_secs_f64() > 20.0 {
                            let _ = ch.kill();
                            let _ = ch.wait();
                            break rf.oracle == "hang";
                        }
                        std::thread::sleep(std::time::Duration::from_millis(20));
                    }
                    Err(_) => break false,
                }
            };
            if !died {
                eprintln!("HARNESS-ERROR: a worker process died/hung but replaying {} in a fresh process does not reproduce it", name);
                return 2;
            }
            println!("  failure: oracle={} mode={} (worker process died or hung; reproduced from its seed in a fresh process)", rf.oracle, rf.case.cfg.mode);
            violations.push((rf, name));
            continue;
        }
        let (min, used) = minimise(&rf, 4000, 45.0);
        let name = format!(
            "{}/{}-{}-{}-{:016x}.json",
            outdir, rf.property, rf.oracle, rf.case.cfg.mode, rf.exec_seed
        );
        let orig = name.replace(".json", ".orig.json");
        let _ = std::fs::rename(f, &orig);
        std::fs::write(&name, serde_json::to_string_pretty(&min).unwrap()).expect("write minimised replay");
        // replay in a fresh process: must reproduce the same oracle (exit code 1)
        let ok = Command::new(std::env::current_exe().unwrap())
            .args(["replay", &name])
            .stdout(Stdio::null())
            .stderr(Stdio::null())
            .status()
            .map(|s| s.code() == Some(1))
            .unwrap_or(false);
        let mut min = min;
        if !ok {
            // The single execution does not reproduce on its own. Either the minimiser went wrong
            // (then the original decision list still reproduces) or the code under test keeps
            // state outside the simulator's seams (a process-global it added) that carries over
            // between executions: then the worker's whole sequence up to this execution does.
            let fresh = |file: &str| {
                Command::new(std::env::current_exe().unwrap())
                    .args(["replay", file])
                    .stdout(Stdio::null())
                    .stderr(Stdio::null())
                    .status()
                    .map(|s| s.code() == Some(1))
                    .unwrap_or(false)
            };
            if fresh(&orig) {
                let _ = std::fs::copy(&orig, &name);
                min = rf.clone();
                println!("  note: the minimised schedule did not reproduce in a fresh process; reporting the original one");
            } else if rf.worker_iter.is_some() {
                let mut h = rf.clone();
                h.replay_with_history = true;
                h.message = format!(
                    "{} [reproduces only after the preceding {} executions of the same worker process: state outside the simulated world persists between executions]",
                    rf.message,
                    rf.worker_iter.map(|w| w.1).unwrap_or(0)
                );
                std::fs::write(&name, serde_json::to_string_pretty(&h).unwrap()).expect("write history replay");
                if fresh(&name) && fresh(&name) {
                    println!("  note: the violation reproduces only together with the executions that preceded it in its worker; the replay file re-runs that sequence");
                    min = h;
                } else {
                    eprintln!("HARNESS-ERROR: replay {} does not reproduce in a fresh process (neither minimised, nor original, nor with its worker's history)", name);
                    return 2;
                }
            } else {
                eprintln!("HARNESS-ERROR: minimised replay {} does not reproduce in a fresh process", name);
                return 2;
            }
        }
        // weak-mode alarms need a consistency certificate
        if min.case.cfg.mode == "weak" {
            let st = Command::new(std::env::current_exe().unwrap())
                .args(["replay", &name, "--certificate"])
                .stdout(Stdio::null())
                .stderr(Stdio::null())
                .status()
                .map(|s| s.code())
                .unwrap_or(None);
            if st == Some(2) {
                eprintln!(
                    "HARNESS-ERROR: weak-memory replay {} is not certified as a consistent C++20 execution (simulator bug)",
                    name
                );
                return 2;
            }
        }
        println!(
            "  failure: oracle={} mode={} decisions {} -> {} (non-default {} -> {}), ops {} -> {}, {} re-executions",
            rf.oracle,
            rf.case.cfg.mode,
            rf.n_decisions,
            min.n_decisions,
            rf.n_nonzero,
            min.n_nonzero,
            rf.case.prog.n_ops(),
            min.case.prog.n_ops(),
            used
        );
        if let Some(k) = known.findings.iter().find(|k| matches_known(k, &min)) {
            known_hits.entry(k.id.clone()).or_insert((k.clone(), name.clone()));
        } else {
            violations.push((min, name));
        }
    }
    let wall = t0.elapsed().as_secs_f64();
    // ---- evidence
    let execs = total.executions.max(1);
    let per_hour = (total.executions as f64 / wall.max(0.001) * 3600.0) as u64;
    let zero_probes: Vec<&str> = verif_rt::probes::NAMES
        .iter()
        .filter(|n| !total.probes.contains_key(**n))
        .copied()
        .collect();
    let evidence = serde_json::json!({
        "property_id": prop,
        "tier": tier,
        "seed": seed,
        "level": level_of(&prop),
        "wall_s": wall,
        "violations": violations.len(),
        "coverage": {
            "evaluations": total.executions,
            "distinct_nontrivial": nfps.len(),
            "rule": rule_of(&prop),
            "samples": samples,
            "distinct_executions_summed_over_workers": distinct_sum,
            "nontrivial_executions": total.nontrivial,
            "inconclusive_executions": total.inconclusive,
            "inconclusive_reasons": total.inconclusive_reasons,
            "simulated_steps": total.steps,
            "decisions": total.decisions,
            "context_switches": total.ctx_switches,
            "runs_per_hour": per_hour,
            "seeds_per_hour": per_hour,
            "simulated_time_note": "the crate has no clock; simulated time is the count of atomic steps",
            "by_memory_mode": by_mode.iter().map(|(k, v)| (k.clone(), serde_json::json!({"executions": v.0, "nontrivial": v.1, "steps": v.2}))).collect::<BTreeMap<_, _>>(),
            "faults_fired": total.faults,
            "reach_probes": total.probes,
            "reach_probes_never_hit": zero_probes,
            "solo_probes": total.solo_probes,
            "solo_probe_by_operation": total.solo_by_op,
            "solo_probe_max_own_steps": total.solo_probe_max_steps,
            "max_own_steps_per_operation": meter_max,
            "ledger_evaluations": total.ledger_checks,
            "guard_identity_checks": total.guard_checks,
            "histories_checked": total.hist_containers,
            "history_calls_checked": total.hist_calls,
            "histories_skipped_too_long": total.hist_skipped,
            "longest_history": total.hist_max_len,
            "api_calls": total.api_calls,
            "user_panics_unwound": total.user_panics,
            "simulated_threads_spawned": total.threads_spawned,
            "max_admissible_stores_for_one_load": total.max_admissible,
            "extra": total.extra,
            "workers": b.workers,
            "known_findings_hit": known_hits.keys().cloned().collect::<Vec<_>>(),
            "components": {
                "real_code": ["all of /repo/src compiled from the working tree with --cfg arc_swap_verif"],
                "stubs": ["AtomicUsize/AtomicPtr (verif_rt shim: scheduling + memory model)", "thread_local! / thread start+exit (simulated threads, ordered destructors)", "Arc as stored pointer (SimArc arena pointer implementing the public RefCnt trait, std orderings)", "allocator (arena with seeded address reuse)", "OS scheduler (seeded schedulers)"]
            },
            "exhaustive": false
        },
        "assumptions": [
            "the weak mode is a subset of C++20 executions (no load buffering); sc mode is interleaving semantics",
            "non-atomic fields of the crate (Node::next, Cells in LocalNode) are not race-checked by the shim",
            "a clean batch is evidence, not proof: schedules and fault sequences are sampled"
        ]
    });
    let evdir = format!("{}/evidence", verif_dir());
    let _ = std::fs::create_dir_all(&evdir);
    let evpath = format!("{}/{}.json", evdir, prop);
    if let Err(e) = std::fs::write(&evpath, serde_json::to_string_pretty(&evidence).unwrap()) {
        eprintln!("HARNESS-ERROR: cannot write evidence: {}", e);
        return 2;
    }
    println!(
        "  executions={} (sc {} / weak {}) nontrivial={} distinct-nontrivial={} inconclusive={} steps={} wall={:.1}s ({:.0} runs/h)",
        total.executions,
        by_mode.get("sc").map(|x| x.0).unwrap_or(0),
        by_mode.get("weak").map(|x| x.0).unwrap_or(0),
        total.nontrivial,
        nfps.len(),
        total.inconclusive,
        total.steps,
        wall,
        per_hour as f64
    );
    println!("  faults fired: {:?}", total.faults);
    let _ = execs;
    for (_, (k, path)) in known_hits.iter() {
        println!("KNOWN-FINDING: property={} {} [{}] replay={}", k.property, k.what, k.id, path);
    }
    if violations.is_empty() {
        println!("OK property={} held on everything explored", prop);
        0
    } else {
        for (rf, path) in violations.iter() {
            println!(
                "VIOLATION property={} replay={} oracle={} primary={} mode={} :: {}",
                prop, path, rf.oracle, rf.primary_property, rf.case.cfg.mode, rf.message
            );
        }
        1
    }
}

/// Determinism self-test: every seed is executed in two different processes (and with different
/// worker numbering) and the per-worker event-log hashes must agree.
pub fn cmd_selftest(args: &[String]) -> i32 {
    if args.first().map(|s| s.as_str()) != Some("determinism") {
        eprintln!("usage: asim selftest determinism <PROP> [execs]");
        return 2;
    }
    let prop = args.get(1).cloned().unwrap_or_else(|| "C01".into());
    let execs: u64 = args.get(2).and_then(|s| s.parse().ok()).unwrap_or(2000);
    let seed = seed_from_env();
    let outdir = format!("{}/replays", verif_dir());
    let b = Budget {
        workers: 8,
        execs_per_worker: execs,
        secs: 600.0,
    };
    let a = match run_workers(&prop, "quick", seed, &b, &outdir) {
        Ok(x) => x,
        Err(e) => {
            eprintln!("HARNESS-ERROR: {}", e);
            return 2;
        }
    };
    // second run: sequentially, one process at a time (different machine load, same seeds)
    let mut ok = true;
    for s in a.iter() {
        let exe = std::env::current_exe().unwrap();
        let out = Command::new(&exe)
            .args([
                "worker",
                &prop,
                "quick",
                &seed.to_string(),
                &s.worker.to_string(),
                &s.mode,
                &execs.to_string(),
                "600",
                &outdir,
            ])
            .output()
            .expect("spawn");
        let so = String::from_utf8_lossy(&out.stdout).to_string();
        let line = so.lines().rev().find(|l| l.starts_with('{')).unwrap_or("{}");
        let s2: WorkerSummary = serde_json::from_str(line).unwrap_or_default();
        if s2.log_hash != s.log_hash || s2.steps != s.steps || s2.executions != s.executions {
            println!(
                "DIVERGENCE worker {} ({}): hash {:x} vs {:x}, steps {} vs {}",
                s.worker, s.mode, s.log_hash, s2.log_hash, s.steps, s2.steps
            );
            ok = false;
        }
        for f in s.failures.iter().chain(s2.failures.iter()) {
            let _ = std::fs::remove_file(f);
        }
        let _ = std::fs::remove_file(&s.fingerprint_file);
        let _ = std::fs::remove_file(&s2.fingerprint_file);
    }
    // Third part: record -> replay round trip, in this process. Every execution is run once from
    // its PRNG and once from the decision list it recorded; fingerprint (all atomic steps and
    // scheduling picks), step count and verdict must agree, or a replay file would not reproduce.
    let rt_execs = (execs / 4).max(100);
    let mut rt_done = 0u64;
    for weak in [false, true] {
        for i in 0..rt_execs {
            let es = crate::exec_seed(seed, &prop, 900 + weak as u64, i);
            let (case, rng) = crate::case_for(&prop, false, weak, es);
            let a = crate::execute(&case, verif_rt::core::Source::Random(rng), false);
            let picks: Vec<u16> = a.trace.iter().map(|d| d.pick).collect();
            let b = crate::execute(&case, verif_rt::core::Source::Replay { picks, pos: 0 }, false);
            rt_done += 1;
            let same = a.out.fingerprint == b.out.fingerprint
                && a.out.stats.steps == b.out.stats.steps
                && a.failure.as_ref().map(|f| &f.0) == b.failure.as_ref().map(|f| &f.0)
                && a.trace.len() == b.trace.len();
            if !same {
                println!(
                    "DIVERGENCE record/replay: {} exec-seed {:x} mode {}: fingerprint {:x} vs {:x}, steps {} vs {}, decisions {} vs {}, verdict {:?} vs {:?}",
                    prop,
                    es,
                    if weak { "weak" } else { "sc" },
                    a.out.fingerprint,
                    b.out.fingerprint,
                    a.out.stats.steps,
                    b.out.stats.steps,
                    a.trace.len(),
                    b.trace.len(),
                    a.failure.as_ref().map(|f| &f.0),
                    b.failure.as_ref().map(|f| &f.0)
                );
                ok = false;
                break;
            }
        }
    }
    crate::world::leak_all();
    if ok {
        println!("determinism: OK — {} executions of {} replayed from their recorded decision lists with identical fingerprints", rt_done, prop);
        println!(
            "determinism: OK — {} workers x {} executions of {} reproduced identical event-log hashes in a second process",
            a.len(),
            execs,
            prop
        );
        0
    } else {
        2
    }
}

// ---------------------------------------------------------------------------------------------
// Event printing and the axiomatic certificate
// ---------------------------------------------------------------------------------------------

fn kind_name(k: OpK) -> &'static str {
    match k {
        OpK::Load => "load",
        OpK::Store => "store",
        OpK::Rmw => "rmw",
        OpK::CasOk => "cas-ok",
        OpK::CasFail => "cas-fail",
        OpK::Fence => "fence",
        OpK::NaRead => "na-read",
        OpK::NaWrite => "na-write",
        OpK::SyncRel => "sync-rel",
        OpK::SyncAcq => "sync-acq",
    }
}

pub fn print_events(out: &Outcome) {
    // dense ids for values that look like addresses, in first-touch order
    let mut ids: BTreeMap<usize, usize> = BTreeMap::new();
    let mut name = |v: usize| -> String {
        if v < 4096 {
            format!("{}", v)
        } else {
            let tag = v & 3;
            let base = v & !3;
            let n = ids.len();
            let id = *ids.entry(base).or_insert(n);
            if tag != 0 {
                format!("@{}|{}", id, tag)
            } else {
                format!("@{}", id)
            }
        }
    };
    for e in out.events.iter() {
        let f = e.site.file().rsplit("/src/").next().unwrap_or(e.site.file());
        println!(
            "  #{:<4} t{} {:8} {:14}#{:<3} {:7} rf={:<3} w={:<3} read={} write={}{} [{}:{}] op={}",
            e.id,
            e.tid,
            kind_name(e.kind),
            e.class.name(),
            e.loc,
            rt::ord_name(e.ord),
            e.rf_mo,
            e.w_mo,
            name(e.rval),
            name(e.val),
            if e.stale_by > 0 { format!(" STALE(-{})", e.stale_by) } else { String::new() },
            f,
            e.site.line(),
            if e.opctx == 255 { "-".to_string() } else { crate::interp::OP_NAMES.get(e.opctx as usize).unwrap_or(&"?").to_string() }
        );
    }
}

fn acq(o: u8) -> bool {
    o == 1 || o == 3 || o == 4
}
fn rel(o: u8) -> bool {
    o == 2 || o == 3 || o == 4
}

/// Independent axiomatic check of the recorded event graph against the C++20 rules the
/// simulator claims to respect: rf/mo well-formedness, RMW atomicity, the four coherence
/// axioms with happens-before recomputed here from the requested orderings (release
/// sequences and fences included), and acyclicity of (hb ∪ coherence-ordered-before)
/// restricted to SeqCst operations. Returns the number of events checked.
pub fn certificate(out: &Outcome) -> Result<usize, String> {
    let ev: &Vec<Event> = &out.events;
    let n = ev.len();
    if n == 0 {
        return Err("no events recorded".into());
    }
    if n > 20000 {
        return Err("too many events for the certificate".into());
    }
    let is_read = |e: &Event| matches!(e.kind, OpK::Load | OpK::Rmw | OpK::CasOk | OpK::CasFail);
    let is_write = |e: &Event| matches!(e.kind, OpK::Store | OpK::Rmw | OpK::CasOk);
    let is_rmw = |e: &Event| matches!(e.kind, OpK::Rmw | OpK::CasOk);
    // writers per (loc, mo index)
    let mut writer: BTreeMap<(u32, i64), usize> = BTreeMap::new();
    for (i, e) in ev.iter().enumerate() {
        if is_write(e) {
            if writer.insert((e.loc, e.w_mo), i).is_some() {
                return Err(format!("two writes with the same mo index at loc {}", e.loc));
            }
        }
    }
    // rf well-formedness, value agreement, RMW atomicity
    for e in ev.iter() {
        if is_read(e) {
            if let Some(wi) = writer.get(&(e.loc, e.rf_mo)) {
                let we = &ev[*wi];
                if we.val != e.rval {
                    return Err(format!("event #{} read {:#x} from a store that wrote {:#x}", e.id, e.rval, we.val));
                }
                if we.id >= e.id {
                    return Err(format!("event #{} reads from the future", e.id));
                }
            }
            if is_rmw(e) && e.w_mo != e.rf_mo + 1 {
                return Err(format!("RMW #{} is not atomic (reads mo {}, writes mo {})", e.id, e.rf_mo, e.w_mo));
            }
        }
    }
    // happens-before as bitsets over event indices
    let words = (n + 63) / 64;
    let mut hb: Vec<Vec<u64>> = vec![vec![0u64; words]; n];
    let mut last_of_thread: BTreeMap<usize, usize> = BTreeMap::new();
    // po-later acquire fences / po-earlier release fences per thread
    let mut rel_fence_before: Vec<Option<usize>> = vec![None; n];
    let mut last_rel_fence: BTreeMap<usize, usize> = BTreeMap::new();
    for (i, e) in ev.iter().enumerate() {
        if e.kind == OpK::Fence && rel(e.ord) {
            last_rel_fence.insert(e.tid, i);
        }
        rel_fence_before[i] = last_rel_fence.get(&e.tid).copied();
    }
    // pending relaxed reads waiting for an acquire fence: (thread) -> list of source events
    let mut pending: BTreeMap<usize, Vec<usize>> = BTreeMap::new();
    let add_edge = |hb: &mut Vec<Vec<u64>>, from: usize, to: usize| {
        let (a, b) = if from < to {
            let (x, y) = hb.split_at_mut(to);
            (&x[from], &mut y[0])
        } else {
            return;
        };
        for w in 0..a.len() {
            b[w] |= a[w];
        }
        b[from / 64] |= 1 << (from % 64);
    };
    for i in 0..n {
        let e = &ev[i];
        if let Some(p) = last_of_thread.get(&e.tid).copied() {
            add_edge(&mut hb, p, i);
        }
        last_of_thread.insert(e.tid, i);
        if is_read(e) {
            // release sequence walk
            let mut j = e.rf_mo;
            loop {
                let Some(wi) = writer.get(&(e.loc, j)).copied() else { break };
                let we = &ev[wi];
                let mut sources: Vec<usize> = Vec::new();
                if rel(we.ord) {
                    sources.push(wi);
                } else if let Some(f) = rel_fence_before[wi] {
                    sources.push(f);
                }
                for s in sources {
                    if acq(e.ord) {
                        add_edge(&mut hb, s, i);
                    } else {
                        pending.entry(e.tid).or_default().push(s);
                    }
                }
                if is_rmw(we) {
                    j -= 1;
                } else {
                    break;
                }
            }
        }
        if e.kind == OpK::SyncAcq {
            for j in 0..i {
                if ev[j].kind == OpK::SyncRel && ev[j].loc == e.loc {
                    add_edge(&mut hb, j, i);
                }
            }
        }
        if e.kind == OpK::Fence && acq(e.ord) {
            if let Some(v) = pending.remove(&e.tid) {
                for s in v {
                    add_edge(&mut hb, s, i);
                }
            }
        }
    }
    let hbf = |a: usize, b: usize| -> bool { hb[b][a / 64] & (1 << (a % 64)) != 0 };
    // coherence
    let by_loc: BTreeMap<u32, Vec<usize>> = {
        let mut m: BTreeMap<u32, Vec<usize>> = BTreeMap::new();
        for (i, e) in ev.iter().enumerate() {
            if !matches!(e.kind, OpK::Fence | OpK::SyncRel | OpK::SyncAcq) {
                m.entry(e.loc).or_default().push(i);
            }
        }
        m
    };
    for (_, idxs) in by_loc.iter() {
        for &a in idxs.iter() {
            for &b in idxs.iter() {
                if a == b || !hbf(a, b) {
                    continue;
                }
                let (ea, eb) = (&ev[a], &ev[b]);
                if is_write(ea) && is_write(eb) && !(ea.w_mo < eb.w_mo) {
                    return Err(format!("CoWW violated between #{} and #{}", ea.id, eb.id));
                }
                if is_write(ea) && is_read(eb) && !(ea.w_mo <= eb.rf_mo) {
                    return Err(format!("CoWR violated between #{} and #{}", ea.id, eb.id));
                }
                if is_read(ea) && is_write(eb) && !(ea.rf_mo < eb.w_mo) {
                    return Err(format!("CoRW violated between #{} and #{}", ea.id, eb.id));
                }
                if is_read(ea) && is_read(eb) && !(ea.rf_mo <= eb.rf_mo) {
                    return Err(format!("CoRR violated between #{} and #{}", ea.id, eb.id));
                }
            }
        }
    }
    // SC: (hb ∪ eco) restricted to SeqCst operations must be acyclic
    let sc: Vec<usize> = (0..n).filter(|i| ev[*i].ord == 4 && !matches!(ev[*i].kind, OpK::Fence | OpK::SyncRel | OpK::SyncAcq)).collect();
    let m = sc.len();
    let mut adj: Vec<Vec<usize>> = vec![Vec::new(); m];
    for x in 0..m {
        for y in 0..m {
            if x == y {
                continue;
            }
            let (a, b) = (sc[x], sc[y]);
            let (ea, eb) = (&ev[a], &ev[b]);
            let mut edge = hbf(a, b);
            if !edge && ea.loc == eb.loc {
                // coherence-ordered-before via mo indices
                if is_write(ea) && is_write(eb) && ea.w_mo < eb.w_mo {
                    edge = true;
                }
                if is_write(ea) && is_read(eb) && ea.w_mo <= eb.rf_mo && a != b {
                    edge = true;
                }
                if is_read(ea) && is_write(eb) && ea.rf_mo < eb.w_mo {
                    edge = true;
                }
                if is_read(ea) && is_read(eb) && ea.rf_mo < eb.rf_mo {
                    edge = true;
                }
            }
            if edge {
                adj[x].push(y);
            }
        }
    }
    // cycle detection (iterative DFS, colours)
    let mut colour = vec![0u8; m];
    for s in 0..m {
        if colour[s] != 0 {
            continue;
        }
        let mut stack: Vec<(usize, usize)> = vec![(s, 0)];
        colour[s] = 1;
        while let Some((v, k)) = stack.pop() {
            if k < adj[v].len() {
                stack.push((v, k + 1));
                let u = adj[v][k];
                if colour[u] == 1 {
                    return Err(format!(
                        "no total order S of the SeqCst operations exists (cycle through #{} and #{})",
                        ev[sc[v]].id, ev[sc[u]].id
                    ));
                }
                if colour[u] == 0 {
                    colour[u] = 1;
                    stack.push((u, 0));
                }
            } else {
                colour[v] = 2;
            }
        }
    }
    Ok(n)
}
