//! Shared harness state of one execution: containers, guard and handle pools, mailboxes,
//! the recorded call history. Lives in an OS thread-local (everything runs on one OS thread);
//! no borrow of it is ever held across a scheduling point.

#![allow(deprecated)]

use crate::arena::{Slot, SimArc, SimWeak, KA, KB};
use arc_swap::strategy::test_strategies::FillFastSlots;
use arc_swap::{ArcSwapAny, Guard, RefCnt};
use std::cell::RefCell;
use std::rc::Rc;
use verif_rt::vclock::VClock;

pub type SA = SimArc<KA>;
pub type SB = SimArc<KB>;
pub type WA = SimWeak<KA>;
pub type FF = FillFastSlots;
pub type DS = arc_swap::DefaultStrategy;

/// A value the harness owns: possibly-null pointer of one of the two pointee kinds.
pub enum HVal {
    A(Option<SA>),
    B(Option<SB>),
    /// a weak handle (possibly dangling)
    W(WA),
}

impl HVal {
    pub fn peek_uid(&self) -> u32 {
        match self {
            HVal::A(Some(x)) => x.peek_uid(),
            HVal::B(Some(x)) => x.peek_uid(),
            HVal::W(x) => x.peek_uid(),
            _ => 0,
        }
    }
    pub fn addr(&self) -> usize {
        match self {
            HVal::A(Some(x)) => x.addr(),
            HVal::B(Some(x)) => x.addr(),
            HVal::W(x) => x.addr(),
            _ => 0,
        }
    }
    pub fn is_weak(&self) -> bool {
        matches!(self, HVal::W(_))
    }
    pub fn clone_val(&self) -> HVal {
        match self {
            HVal::A(x) => HVal::A(x.clone()),
            HVal::B(x) => HVal::B(x.clone()),
            HVal::W(x) => HVal::W(x.clone()),
        }
    }
    /// Touching read of the identity (0 for null).
    pub fn uid(&self) -> u32 {
        match self {
            HVal::A(Some(x)) => x.uid(),
            HVal::B(Some(x)) => x.uid(),
            HVal::W(x) => x.peek_uid(),
            _ => 0,
        }
    }
    pub fn val(&self) -> u64 {
        match self {
            HVal::A(Some(x)) => x.val(),
            HVal::B(Some(x)) => x.val(),
            _ => 0,
        }
    }
    pub fn set_panic_on_drop(&self, on: bool) {
        match self {
            HVal::A(Some(x)) => x.set_panic_on_drop(on),
            HVal::B(Some(x)) => x.set_panic_on_drop(on),
            _ => {}
        }
    }
}

/// The pointer types stored in containers.
pub trait PtrT: RefCnt<Base = Slot> + 'static {
    const NULLABLE: bool;
    const KIND: u8;
    fn from_h(h: HVal) -> Result<Self, HVal>;
    fn into_h(self) -> HVal;
    fn fresh(val: u64) -> Self;
    fn null() -> Option<Self>;
    fn uid_touch(&self) -> u32;
    fn val_touch(&self) -> u64;
    fn peek_uid(&self) -> u32;
    fn addr(&self) -> usize;
}

impl PtrT for SA {
    const NULLABLE: bool = false;
    const KIND: u8 = 1;
    fn from_h(h: HVal) -> Result<Self, HVal> {
        match h {
            HVal::A(Some(x)) => Ok(x),
            o => Err(o),
        }
    }
    fn into_h(self) -> HVal {
        HVal::A(Some(self))
    }
    fn fresh(val: u64) -> Self {
        SA::new(val)
    }
    fn null() -> Option<Self> {
        None
    }
    fn uid_touch(&self) -> u32 {
        self.uid()
    }
    fn val_touch(&self) -> u64 {
        self.val()
    }
    fn peek_uid(&self) -> u32 {
        SimArc::peek_uid(self)
    }
    fn addr(&self) -> usize {
        SimArc::addr(self)
    }
}

impl PtrT for SB {
    const NULLABLE: bool = false;
    const KIND: u8 = 2;
    fn from_h(h: HVal) -> Result<Self, HVal> {
        match h {
            HVal::B(Some(x)) => Ok(x),
            o => Err(o),
        }
    }
    fn into_h(self) -> HVal {
        HVal::B(Some(self))
    }
    fn fresh(val: u64) -> Self {
        SB::new(val)
    }
    fn null() -> Option<Self> {
        None
    }
    fn uid_touch(&self) -> u32 {
        self.uid()
    }
    fn val_touch(&self) -> u64 {
        self.val()
    }
    fn peek_uid(&self) -> u32 {
        SimArc::peek_uid(self)
    }
    fn addr(&self) -> usize {
        SimArc::addr(self)
    }
}

impl PtrT for Option<SA> {
    const NULLABLE: bool = true;
    const KIND: u8 = 1;
    fn from_h(h: HVal) -> Result<Self, HVal> {
        match h {
            HVal::A(x) => Ok(x),
            o => Err(o),
        }
    }
    fn into_h(self) -> HVal {
        HVal::A(self)
    }
    fn fresh(val: u64) -> Self {
        Some(SA::new(val))
    }
    fn null() -> Option<Self> {
        Some(None)
    }
    fn uid_touch(&self) -> u32 {
        self.as_ref().map(|x| x.uid()).unwrap_or(0)
    }
    fn val_touch(&self) -> u64 {
        self.as_ref().map(|x| x.val()).unwrap_or(0)
    }
    fn peek_uid(&self) -> u32 {
        self.as_ref().map(|x| SimArc::peek_uid(x)).unwrap_or(0)
    }
    fn addr(&self) -> usize {
        self.as_ref().map(|x| SimArc::addr(x)).unwrap_or(0)
    }
}

impl PtrT for WA {
    const NULLABLE: bool = true;
    const KIND: u8 = 1;
    fn from_h(h: HVal) -> Result<Self, HVal> {
        match h {
            HVal::W(x) => Ok(x),
            // a strong handle is downgraded (the strong reference is released afterwards)
            HVal::A(Some(x)) => {
                let w = x.downgrade();
                drop(x);
                Ok(w)
            }
            HVal::A(None) => Ok(WA::dangling()),
            o => Err(o),
        }
    }
    fn into_h(self) -> HVal {
        HVal::W(self)
    }
    fn fresh(val: u64) -> Self {
        // a weak pointer to a value that is dropped right away: target already destroyed
        let s = SA::new(val);
        let w = s.downgrade();
        drop(s);
        w
    }
    fn null() -> Option<Self> {
        Some(WA::dangling())
    }
    fn uid_touch(&self) -> u32 {
        SimWeak::peek_uid(self)
    }
    fn val_touch(&self) -> u64 {
        0
    }
    fn peek_uid(&self) -> u32 {
        SimWeak::peek_uid(self)
    }
    fn addr(&self) -> usize {
        SimWeak::addr(self)
    }
}

/// Containers of every (pointer type, strategy) combination exercised.
pub enum Cont {
    AD(ArcSwapAny<SA, DS>),
    AF(ArcSwapAny<SA, FF>),
    OD(ArcSwapAny<Option<SA>, DS>),
    OF(ArcSwapAny<Option<SA>, FF>),
    BD(ArcSwapAny<SB, DS>),
    BF(ArcSwapAny<SB, FF>),
    /// a container of weak pointers (ArcSwapWeak)
    WD(ArcSwapAny<WA, DS>),
}

pub enum AnyGuard {
    AD(Guard<SA, DS>),
    AF(Guard<SA, FF>),
    OD(Guard<Option<SA>, DS>),
    OF(Guard<Option<SA>, FF>),
    BD(Guard<SB, DS>),
    BF(Guard<SB, FF>),
    WD(Guard<WA, DS>),
}

/// Runs `$body` with `$c` bound to the concrete container and `$wrap` to the matching
/// `AnyGuard` constructor.
#[macro_export]
macro_rules! with_cont {
    ($cont:expr, $c:ident, $wrap:ident => $body:expr) => {
        match $cont {
            $crate::world::Cont::AD($c) => {
                #[allow(unused_variables)]
                let $wrap = $crate::world::AnyGuard::AD;
                $body
            }
            $crate::world::Cont::AF($c) => {
                #[allow(unused_variables)]
                let $wrap = $crate::world::AnyGuard::AF;
                $body
            }
            $crate::world::Cont::OD($c) => {
                #[allow(unused_variables)]
                let $wrap = $crate::world::AnyGuard::OD;
                $body
            }
            $crate::world::Cont::OF($c) => {
                #[allow(unused_variables)]
                let $wrap = $crate::world::AnyGuard::OF;
                $body
            }
            $crate::world::Cont::BD($c) => {
                #[allow(unused_variables)]
                let $wrap = $crate::world::AnyGuard::BD;
                $body
            }
            $crate::world::Cont::BF($c) => {
                #[allow(unused_variables)]
                let $wrap = $crate::world::AnyGuard::BF;
                $body
            }
            $crate::world::Cont::WD($c) => {
                #[allow(unused_variables)]
                let $wrap = $crate::world::AnyGuard::WD;
                $body
            }
        }
    };
}

#[macro_export]
macro_rules! with_guard {
    ($g:expr, $x:ident => $body:expr) => {
        match $g {
            $crate::world::AnyGuard::AD($x) => $body,
            $crate::world::AnyGuard::AF($x) => $body,
            $crate::world::AnyGuard::OD($x) => $body,
            $crate::world::AnyGuard::OF($x) => $body,
            $crate::world::AnyGuard::BD($x) => $body,
            $crate::world::AnyGuard::BF($x) => $body,
            $crate::world::AnyGuard::WD($x) => $body,
        }
    };
}

impl AnyGuard {
    /// Touching read of the identity the guard denotes.
    pub fn uid_touch(&self) -> u32 {
        with_guard!(self, g => PtrT::uid_touch(&**g))
    }
    pub fn val_touch(&self) -> u64 {
        with_guard!(self, g => PtrT::val_touch(&**g))
    }
    pub fn peek_uid(&self) -> u32 {
        with_guard!(self, g => PtrT::peek_uid(&**g))
    }
    pub fn addr(&self) -> usize {
        with_guard!(self, g => PtrT::addr(&**g))
    }
    pub fn into_inner(self) -> HVal {
        with_guard!(self, g => Guard::into_inner(g).into_h())
    }
}

/// compare_and_swap with `current` given in its guard forms exists only for the default
/// strategy (`AsRaw` is implemented for `Guard<T>` = `Guard<T, DefaultStrategy>`); for the
/// other strategy the raw-pointer form is used instead.
pub trait CasForms<T: PtrT, S: arc_swap::strategy::Strategy<T>> {
    fn cas_guard_ref(&self, cur: &Guard<T, S>, new: T) -> Guard<T, S>;
    fn cas_guard_own(&self, cur: Guard<T, S>, new: T) -> Guard<T, S>;
}

impl<T: PtrT> CasForms<T, DS> for ArcSwapAny<T, DS> {
    fn cas_guard_ref(&self, cur: &Guard<T, DS>, new: T) -> Guard<T, DS> {
        self.compare_and_swap(cur, new)
    }
    fn cas_guard_own(&self, cur: Guard<T, DS>, new: T) -> Guard<T, DS> {
        self.compare_and_swap(cur, new)
    }
}

impl<T: PtrT> CasForms<T, FF> for ArcSwapAny<T, FF> {
    fn cas_guard_ref(&self, cur: &Guard<T, FF>, new: T) -> Guard<T, FF> {
        self.compare_and_swap(T::as_ptr(cur) as *const Slot, new)
    }
    fn cas_guard_own(&self, cur: Guard<T, FF>, new: T) -> Guard<T, FF> {
        let p = T::as_ptr(&cur);
        let r = self.compare_and_swap(p, new);
        drop(cur);
        r
    }
}

#[derive(Clone, Copy, PartialEq, Eq, Debug, serde::Serialize, serde::Deserialize)]
pub enum CallKind {
    Load,
    LoadFull,
    Store,
    Swap,
    Cas,
    /// One closure invocation inside rcu: observed input.
    RcuSeen,
    /// The successful installation of rcu.
    Rcu,
    IntoInner,
    DropCont,
    CacheLoad,
    AccessLoad,
}

#[derive(Clone, Debug)]
pub struct Call {
    pub th: u8,
    pub tid: usize,
    pub c: u8,
    pub kind: CallKind,
    /// Value written (uid, addr), 0 = null / none.
    pub arg: u32,
    pub arg_addr: usize,
    /// For cas: the address given as `current`.
    pub exp_addr: usize,
    /// For cas with `current` given in a form that keeps the value alive (`&T`, `&Guard`,
    /// `Guard`): the identity of that value. The comparison is then one of objects, not merely of
    /// addresses (the address of a live value cannot belong to any other object).
    pub exp_uid: Option<u32>,
    /// Value returned.
    pub ret: u32,
    pub ret_addr: usize,
    pub inv: u64,
    pub resp: u64,
    pub inv_clock: VClock,
    pub resp_clock: VClock,
    pub completed: bool,
    pub steps: u64,
}

pub struct GEntry {
    pub g: AnyGuard,
    pub uid: u32,
    pub addr: usize,
    pub cont: u8,
}

pub struct ContEntry {
    pub c: Option<Rc<Cont>>,
    pub shares: u32,
    /// harness synchronisation channel standing in for the count of an Arc<container>
    pub chan: usize,
    pub init_uid: u32,
    pub init_addr: usize,
    pub kind: u8,
}

#[derive(Default)]
pub struct Mailbox {
    pub sem: usize,
    pub queue: Vec<GEntry>,
}

pub const SLOTS_PER_THREAD: usize = 24;

#[derive(Default)]
pub struct World {
    pub conts: Vec<ContEntry>,
    pub guards: Vec<Option<GEntry>>,
    pub handles: Vec<Option<HVal>>,
    pub mail: Vec<Mailbox>,
    pub hist: Vec<Call>,
    pub stamp: u64,
    /// program thread index -> simulator thread id (once spawned)
    pub tids: Vec<Option<usize>>,
    /// node address -> owning simulator thread (C11 monitor)
    pub node_owner: std::collections::BTreeMap<usize, usize>,
    pub nodes_seen: std::collections::BTreeSet<usize>,
    pub live_users: u32,
    pub peak_users: u32,
    pub cooldown_blocked: u64,
    pub ledger_checks: u64,
    pub notes: Vec<String>,
    pub nontrivial: u32,
    /// Expected panics caught by the harness (C18) and how many calls were wrapped.
    pub user_panics: u32,
    pub api_calls: u64,
    pub guards_moved: u32,
    pub guard_checks: u64,
    pub n_threads: usize,
    pub writes_done: Vec<u64>,
    pub prog: crate::program::Program,
    pub seen: Vec<Vec<usize>>,
    pub tmp_guards: Vec<GEntry>,
    pub tmp_tokens: Vec<u64>,
    pub tmp_seq: u64,
    pub inflight_guard_uids: Vec<u32>,
    pub payload_ctr: u64,
    pub discarded: Vec<u32>,
    pub spawned: Vec<bool>,
    pub joined: Vec<bool>,
    pub finished: Vec<bool>,
    pub barriers: Vec<(usize, u32)>,
    pub tls_regs: Vec<u32>,
    pub tls_dtor_runs: u32,
    pub gen_presets: u32,
    pub armed: u32,
    pub nodes_created: u32,
    pub nodes_reclaimed: u32,
    pub caches: Vec<Option<crate::extras::CacheEntry>>,
    pub accs: Vec<Option<crate::extras::AccEntry>>,
    pub extra_counts: std::collections::BTreeMap<String, u64>,
    pub last_paid_slot: usize,
    pub paid_by_storage: std::collections::BTreeMap<usize, usize>,
    pub reader_paid_slot: (usize, u32),
    pub inflight_cache_uids: Vec<u32>,
    pub inflight_acc: Vec<(u32, usize)>,
    /// Per simulated thread: the k-th projection call from now panics (0 = disarmed).
    pub proj_panic: Vec<u32>,
    /// Per node: who holds a writer reservation right now, since which entry (node, tid, entry no).
    pub writers_inside: Vec<(usize, usize, u64)>,
    pub writer_entries: u64,
    /// Per node in cooldown: the reservations that were held when the cooldown started.
    pub cooldown_witness: Vec<(usize, usize, u64)>,
    pub prog_wants_access: bool,
    pub prog_readonly_churn: bool,
    pub gen_set: Vec<bool>,
    pub payall_depth: Vec<u32>,
    pub payall_ptr: Vec<usize>,
    pub inflight_storages: Vec<(usize, u8)>,
    pub dropping_kind: Vec<Option<u8>>,
    pub addr_seen_in: std::collections::BTreeMap<usize, (bool, bool)>,
}

thread_local! {
    pub static WORLD: RefCell<World> = RefCell::new(World::default());
}

pub fn w<R>(f: impl FnOnce(&mut World) -> R) -> R {
    WORLD.with(|w| f(&mut w.borrow_mut()))
}

pub fn stamp() -> u64 {
    w(|w| {
        w.stamp += 1;
        w.stamp
    })
}

/// Leak the harness state instead of running destructors at process exit: containers and
/// guards left from an aborted execution point into an arena that may be gone.
pub fn leak_all() {
    WORLD.with(|w| {
        let old = std::mem::take(&mut *w.borrow_mut());
        std::mem::forget(old);
    });
}
