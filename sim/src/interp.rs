//! Interpreter: runs a `Program` on the simulator, driving arc-swap through its public API,
//! recording the call history and keeping every owned handle/guard in enumerable pools so the
//! ownership ledger can be evaluated at every quiescent instant.

#![allow(deprecated)]

use crate::arena::{self, Slot, UserPanic};
use crate::program::*;
use crate::world::*;
use crate::{with_cont, with_guard};
use arc_swap::{ArcSwapAny, Guard, RefCnt};
use std::collections::BTreeMap;
use std::panic::{catch_unwind, AssertUnwindSafe};
use std::rc::Rc;
use verif_rt::core as rt;
use verif_rt::probes;

pub const OP_LOAD: u8 = 0;
pub const OP_LOAD_FULL: u8 = 1;
pub const OP_STORE: u8 = 2;
pub const OP_SWAP: u8 = 3;
pub const OP_CAS: u8 = 4;
pub const OP_RCU: u8 = 5;
pub const OP_INTO_INNER: u8 = 6;
pub const OP_DROP_CONT: u8 = 7;
pub const OP_GUARD_DROP: u8 = 8;
pub const OP_GUARD_INTO_INNER: u8 = 9;
pub const OP_CACHE_LOAD: u8 = 10;
pub const OP_ACCESS_LOAD: u8 = 11;
pub const OP_HANDLE: u8 = 13;
pub const OP_NAMES: [&str; 14] = [
    "load",
    "load_full",
    "store",
    "swap",
    "compare_and_swap",
    "rcu",
    "into_inner",
    "drop(container)",
    "drop(guard)",
    "Guard::into_inner",
    "Cache::load",
    "Access::load",
    "-",
    "handle clone/drop",
];
pub const READ_OPS: u32 = (1 << OP_LOAD) | (1 << OP_LOAD_FULL);
pub const WRITE_OPS: u32 = (1 << OP_STORE)
    | (1 << OP_SWAP)
    | (1 << OP_CAS)
    | (1 << OP_RCU)
    | (1 << OP_INTO_INNER)
    | (1 << OP_DROP_CONT)
    | (1 << OP_GUARD_DROP)
    | (1 << OP_GUARD_INTO_INNER);

#[derive(Clone, Copy)]
pub struct Ctx {
    /// program thread index
    pub th: usize,
}

fn gslot(ctx: Ctx, g: u8) -> usize {
    ctx.th * SLOTS_PER_THREAD + (g as usize % SLOTS_PER_THREAD)
}
fn hslot(ctx: Ctx, h: u8) -> usize {
    ctx.th * SLOTS_PER_THREAD + (h as usize % SLOTS_PER_THREAD)
}


/// Guards that are temporarily outside the guard table (between two operations of one thread)
/// stay enumerable for the ledger in `tmp_guards`. Several threads can be in such a gap at once,
/// so an entry is taken back by its token, never by position.
fn tmp_push(e: GEntry) -> u64 {
    w(|w| {
        w.tmp_seq += 1;
        w.tmp_tokens.push(w.tmp_seq);
        w.tmp_guards.push(e);
        w.tmp_seq
    })
}
fn tmp_take(tok: u64) -> Option<GEntry> {
    w(|w| {
        let i = w.tmp_tokens.iter().position(|t| *t == tok)?;
        w.tmp_tokens.remove(i);
        Some(w.tmp_guards.remove(i))
    })
}

pub fn get_cont(c: u8) -> Option<Rc<Cont>> {
    w(|w| w.conts.get(c as usize).and_then(|e| e.c.clone()))
}

fn storage_addr_of(c: &Cont) -> usize {
    with_cont!(c, cv, _wr => cv.verif_storage_addr())
}

fn peek_cont_ptr(c: &Cont) -> usize {
    with_cont!(c, cv, _wr => cv.verif_ptr() as usize)
}

/// Runs a library call, catching panics: an injected user panic is expected and reported as
/// `None`; any other panic is a violation (operations are total).
pub fn guarded<R>(what: &str, f: impl FnOnce() -> R) -> Option<R> {
    w(|w| w.api_calls += 1);
    match catch_unwind(AssertUnwindSafe(f)) {
        Ok(r) => Some(r),
        Err(e) => {
            if e.is::<UserPanic>() {
                w(|w| w.user_panics += 1);
                // did the panic unwind out of a writer's debt walk?
                let me = rt::current();
                let in_walk = w(|w| {
                    let d = w.payall_depth.get(me).copied().unwrap_or(0);
                    if let Some(x) = w.payall_depth.get_mut(me) {
                        *x = 0;
                    }
                    d > 0
                });
                if in_walk {
                    crate::marks::mark("panic-unwound-through-debt-walk: a user panic (destructor) left pay_all by unwinding".to_string());
                }
                std::mem::forget(e);
                None
            } else {
                let msg = if let Some(s) = e.downcast_ref::<&str>() {
                    s.to_string()
                } else if let Some(s) = e.downcast_ref::<String>() {
                    s.clone()
                } else {
                    "<payload>".to_string()
                };
                std::mem::forget(e);
                rt::fail("panic", format!("{} panicked: {}", what, msg));
                None
            }
        }
    }
}

pub struct Rec {
    pub inv: u64,
    pub inv_clock: verif_rt::vclock::VClock,
}

pub fn rec_begin() -> Rec {
    Rec {
        inv: stamp(),
        inv_clock: rt::clock_of_current(),
    }
}

#[allow(clippy::too_many_arguments)]
pub fn rec_end(ctx: Ctx, r: Rec, c: u8, kind: CallKind, arg: (u32, usize), exp_addr: usize, ret: (u32, usize), completed: bool) {
    let resp = stamp();
    let resp_clock = rt::clock_of_current();
    let tid = rt::current();
    w(|w| {
        w.hist.push(Call {
            th: ctx.th as u8,
            tid,
            c,
            kind,
            arg: arg.0,
            arg_addr: arg.1,
            exp_addr,
            exp_uid: None,
            ret: ret.0,
            ret_addr: ret.1,
            inv: r.inv,
            resp,
            inv_clock: r.inv_clock,
            resp_clock,
            completed,
            steps: 0,
        })
    });
}

pub fn note_seen(ctx: Ctx, addr: usize) {
    if addr != 0 {
        w(|w| {
            let v = &mut w.seen[ctx.th];
            v.retain(|a| *a != addr);
            v.push(addr);
            if v.len() > 6 {
                v.remove(0);
            }
        });
    }
}

/// Produces the value an operation writes.
fn make_value<T: PtrT>(ctx: Ctx, v: V) -> T {
    match v {
        V::New => T::fresh(next_payload()),
        V::NewArmed => {
            let t = T::fresh(next_payload());
            let a = t.addr();
            if a != 0 && arena::arm_panic_at(a) {
                w(|w| w.armed += 1);
            }
            t
        }
        V::Null => T::null().unwrap_or_else(|| T::fresh(next_payload())),
        V::H(h) => {
            let hv = w(|w| w.handles[hslot(ctx, h)].take());
            match hv {
                Some(hv) => {
                    // cloning is a scheduling point: no borrow of the world is held here
                    let c2 = hv.clone_val();
                    w(|w| w.handles[hslot(ctx, h)] = Some(hv));
                    match T::from_h(c2) {
                        Ok(t) => t,
                        Err(other) => {
                            drop(other);
                            T::fresh(next_payload())
                        }
                    }
                }
                None => T::fresh(next_payload()),
            }
        }
    }
}

/// Remembers that the allocation at `addr` is (about to be) referenced by container `c`.
fn note_stored(c: u8, addr: usize) {
    if addr == 0 {
        return;
    }
    w(|w| {
        let weak = w.conts.get(c as usize).map(|e| e.kind == CKind::WD as u8).unwrap_or(false);
        let e = w.addr_seen_in.entry(addr).or_insert((false, false));
        if weak {
            e.1 = true;
        } else {
            e.0 = true;
        }
    });
}

pub fn next_payload() -> u64 {
    w(|w| {
        w.payload_ctr += 1;
        1000 + w.payload_ctr
    })
}

fn put_handle(ctx: Ctx, h: u8, v: HVal) {
    // Replace whatever was in the slot; the old value is dropped as its own step.
    let old = w(|w| w.handles[hslot(ctx, h)].replace(v));
    drop(old);
}

fn put_guard(ctx: Ctx, g: u8, e: GEntry) {
    let old = w(|w| w.guards[gslot(ctx, g)].replace(e));
    if let Some(o) = old {
        drop_guard_entry(o, "guard replaced in slot");
    }
}

/// Checks the identity seen through a guard and drops it.
/// Known finding KF3, second call site: a guard that is released compare-exchanges "its" slot by
/// pointer value; after the node was re-claimed that slot may hold a debt of a guard of the OTHER
/// pointer kind (Arc vs Weak) on the same allocation. The precondition is marked whenever a guard
/// is released while a guard of the other kind on the same allocation is alive.
fn mark_cross_kind_release(e: &GEntry) {
    if e.addr == 0 {
        return;
    }
    let hit = w(|w| {
        let weak_of = |c: u8| w.conts.get(c as usize).map(|x| x.kind == CKind::WD as u8).unwrap_or(false);
        let mine = weak_of(e.cont);
        w.guards
            .iter()
            .flatten()
            .chain(w.tmp_guards.iter())
            .chain(w.mail.iter().flat_map(|m| m.queue.iter()))
            .any(|g| g.addr == e.addr && weak_of(g.cont) != mine)
    });
    if hit {
        crate::marks::mark(
            "cross-kind-guard-release: a guard is released while a guard of the other pointer kind (Arc vs Weak) borrows the same allocation; slots are matched by the raw pointer only".to_string(),
        );
    }
}

fn drop_guard_entry(e: GEntry, what: &str) {
    mark_cross_kind_release(&e);
    let seen = e.g.uid_touch();
    w(|w| w.guard_checks += 1);
    if seen != e.uid && !rt::is_aborting() {
        rt::fail(
            "guard-identity",
            format!("{}: guard created on uid={} now denotes uid={}", what, e.uid, seen),
        );
        std::mem::forget(e);
        return;
    }
    let _ = guarded("drop(guard)", move || drop(e.g));
}

// ---------------------------------------------------------------------------------------------
// Operations
// ---------------------------------------------------------------------------------------------

fn op_free_guard_slot(ctx: Ctx, g: u8) {
    let has = w(|w| w.guards[gslot(ctx, g)].is_some());
    if has {
        op_drop_guard(ctx, g);
    }
}

fn op_load(ctx: Ctx, c: u8, g: Option<u8>) {
    let Some(cont) = get_cont(c) else { return };
    if let Some(g) = g {
        op_free_guard_slot(ctx, g);
    }
    rt::op_begin(OP_LOAD);
    let r = rec_begin();
    let res = guarded("load", || with_cont!(&*cont, cv, wrap => wrap(cv.load())));
    if let Some(ag) = res {
        let uid = ag.uid_touch();
        let addr = ag.addr();
        rec_end(ctx, r, c, CallKind::Load, (0, 0), 0, (uid, addr), true);
        note_seen(ctx, addr);
        let e = GEntry { g: ag, uid, addr, cont: c };
        match g {
            Some(g) => {
                w(|w| w.guards[gslot(ctx, g)] = Some(e));
                rt::op_end();
            }
            None => {
                // keep it enumerable while the load op ends, then drop it as its own op
                let tok = tmp_push(e);
                rt::op_end();
                let e = tmp_take(tok);
                if let Some(e) = e {
                    rt::op_begin(OP_GUARD_DROP);
                    drop_guard_entry(e, "load+drop");
                    rt::op_end();
                }
            }
        }
    } else {
        rt::op_end();
    }
}

fn op_load_full(ctx: Ctx, c: u8, h: u8) {
    let Some(cont) = get_cont(c) else { return };
    op_drop_handle(ctx, h);
    rt::op_begin(OP_LOAD_FULL);
    let r = rec_begin();
    let res = guarded("load_full", || with_cont!(&*cont, cv, _wr => cv.load_full().into_h()));
    if let Some(hv) = res {
        let uid = hv.uid();
        let addr = hv.addr();
        rec_end(ctx, r, c, CallKind::LoadFull, (0, 0), 0, (uid, addr), true);
        note_seen(ctx, addr);
        w(|w| w.handles[hslot(ctx, h)] = Some(hv));
    }
    rt::op_end();
}

fn op_check_guard(ctx: Ctx, g: u8) {
    let e = w(|w| w.guards[gslot(ctx, g)].take());
    if let Some(e) = e {
        let seen = e.g.uid_touch();
        let exp = e.uid;
        w(|w| {
            w.guard_checks += 1;
            w.guards[gslot(ctx, g)] = Some(e);
        });
        if seen != exp {
            rt::fail(
                "guard-identity",
                format!("guard created on uid={} now denotes uid={}", exp, seen),
            );
        }
    }
}

fn op_drop_guard(ctx: Ctx, g: u8) {
    let e = w(|w| w.guards[gslot(ctx, g)].take());
    if let Some(e) = e {
        // While being dropped the guard still counts as an owner: keep it enumerable until the
        // operation has begun (the ledger only runs when nobody is inside an operation).
        rt::op_begin(OP_GUARD_DROP);
        drop_guard_entry(e, "drop(guard)");
        rt::op_end();
    }
}

fn op_guard_into_inner(ctx: Ctx, g: u8, h: u8) {
    let e = w(|w| w.guards[gslot(ctx, g)].take());
    let Some(e) = e else { return };
    op_drop_handle_keep(ctx, h, Some(e)).map(|e| {
        rt::op_begin(OP_GUARD_INTO_INNER);
        mark_cross_kind_release(&e);
        let exp = e.uid;
        let res = guarded("Guard::into_inner", move || e.g.into_inner());
        if let Some(hv) = res {
            let got = hv.uid();
            if got != exp {
                rt::fail(
                    "guard-identity",
                    format!("Guard::into_inner of a guard on uid={} returned uid={}", exp, got),
                );
            }
            w(|w| w.handles[hslot(ctx, h)] = Some(hv));
        }
        rt::op_end();
    });
}

/// Empties handle slot `h` first (as its own operation) while `keep` stays enumerable.
fn op_drop_handle_keep(ctx: Ctx, h: u8, keep: Option<GEntry>) -> Option<GEntry> {
    if let Some(k) = keep {
        let tok = tmp_push(k);
        op_drop_handle(ctx, h);
        tmp_take(tok)
    } else {
        op_drop_handle(ctx, h);
        None
    }
}

fn op_guard_from_inner(ctx: Ctx, c: u8, h: u8, g: u8) {
    let Some(cont) = get_cont(c) else { return };
    op_free_guard_slot(ctx, g);
    let hv = w(|w| w.handles[hslot(ctx, h)].take());
    let Some(hv) = hv else { return };
    rt::op_begin(OP_HANDLE);
    let uid = hv.peek_uid();
    let addr = hv.addr();
    // Guard::from_inner wraps an owned value; which Guard type depends on the container kind.
    fn mk<T: PtrT, S: arc_swap::strategy::Strategy<T>>(_c: &ArcSwapAny<T, S>, hv: HVal) -> Result<Guard<T, S>, HVal> {
        T::from_h(hv).map(Guard::from_inner)
    }
    let r = with_cont!(&*cont, cv, wrap => mk(cv, hv).map(wrap));
    match r {
        Ok(ag) => {
            let e = GEntry { g: ag, uid, addr, cont: c };
            w(|w| w.guards[gslot(ctx, g)] = Some(e));
        }
        Err(hv) => {
            w(|w| w.handles[hslot(ctx, h)] = Some(hv));
        }
    }
    rt::op_end();
}

fn op_send_guard(ctx: Ctx, g: u8, to: u8) {
    // The scheduling point comes first: putting the guard into the mailbox and posting (which
    // publishes the sender's clock) are one indivisible step, so a receiver can never take a
    // guard whose sender it has not synchronised with.
    rt::sched_point();
    let e = w(|w| w.guards[gslot(ctx, g)].take());
    let Some(e) = e else { return };
    let sem = w(|w| {
        let to = to as usize % w.mail.len();
        w.mail[to].queue.push(e);
        w.guards_moved += 1;
        w.mail[to].sem
    });
    rt::sem_post_now(sem);
}

fn op_recv_drop(ctx: Ctx) {
    let sem = w(|w| w.mail[ctx.th].sem);
    if rt::sem_try_wait(sem) {
        let e = w(|w| {
            if w.mail[ctx.th].queue.is_empty() {
                None
            } else {
                Some(w.mail[ctx.th].queue.remove(0))
            }
        });
        if let Some(e) = e {
            let tok = tmp_push(e);
            rt::op_begin(OP_GUARD_DROP);
            let e = tmp_take(tok).unwrap();
            drop_guard_entry(e, "drop(guard received from another thread)");
            rt::op_end();
        }
    }
}

fn op_store(ctx: Ctx, c: u8, v: V) {
    let Some(cont) = get_cont(c) else { return };
    rt::op_begin(OP_STORE);
    fn go<T: PtrT, S: arc_swap::strategy::Strategy<T>>(ctx: Ctx, c: u8, cv: &ArcSwapAny<T, S>, v: V) {
        let val: T = make_value(ctx, v);
        let arg = (val.peek_uid(), val.addr());
        note_stored(c, arg.1);
        let r = rec_begin();
        let res = guarded("store", move || cv.store(val));
        // A panic out of store can only come from the destructor of the replaced value, i.e.
        // after the exchange: the store took effect.
        let _ = res;
        rec_end(ctx, r, c, CallKind::Store, arg, 0, (0, 0), true);
    }
    with_cont!(&*cont, cv, _wr => go(ctx, c, cv, v));
    w(|w| w.writes_done[ctx.th] += 1);
    rt::op_end();
}

fn op_swap(ctx: Ctx, c: u8, v: V, h: u8) {
    let Some(cont) = get_cont(c) else { return };
    op_drop_handle(ctx, h);
    rt::op_begin(OP_SWAP);
    fn go<T: PtrT, S: arc_swap::strategy::Strategy<T>>(ctx: Ctx, c: u8, cv: &ArcSwapAny<T, S>, v: V, h: u8) {
        let val: T = make_value(ctx, v);
        let arg = (val.peek_uid(), val.addr());
        note_stored(c, arg.1);
        let r = rec_begin();
        let res = guarded("swap", move || cv.swap(val));
        match res {
            Some(old) => {
                let hv = old.into_h();
                let ret = (hv.uid(), hv.addr());
                rec_end(ctx, r, c, CallKind::Swap, arg, 0, ret, true);
                note_seen(ctx, ret.1);
                w(|w| w.handles[hslot(ctx, h)] = Some(hv));
            }
            None => rec_end(ctx, r, c, CallKind::Swap, arg, 0, (0, 0), false),
        }
    }
    with_cont!(&*cont, cv, _wr => go(ctx, c, cv, v, h));
    w(|w| w.writes_done[ctx.th] += 1);
    rt::op_end();
}

fn op_cas(ctx: Ctx, c: u8, cur: Cur, form: u8, v: V, g: u8) {
    let Some(cont) = get_cont(c) else { return };
    op_free_guard_slot(ctx, g);
    rt::op_begin(OP_CAS);

    fn go<T: PtrT, S: arc_swap::strategy::CaS<T>>(
        ctx: Ctx,
        c: u8,
        cv: &ArcSwapAny<T, S>,
        cur: Cur,
        form: u8,
        v: V,
        unwrap_guard: &dyn Fn(AnyGuard) -> Result<Guard<T, S>, AnyGuard>,
        wrap: &dyn Fn(Guard<T, S>) -> AnyGuard,
    ) -> Option<GEntry>
    where
        ArcSwapAny<T, S>: CasForms<T, S>,
    {
        let new: T = make_value(ctx, v);
        let arg = (new.peek_uid(), new.addr());
        note_stored(c, arg.1);
        // Resolve `current`.
        enum C<T: PtrT, S: arc_swap::strategy::Strategy<T>> {
            Val(T),
            GuardRef((u32, usize, u8), Guard<T, S>, u8),
            GuardOwn(Guard<T, S>),
            Raw(usize),
        }
        let mut cu: C<T, S> = match cur {
            Cur::Null => C::Raw(0),
            Cur::Stored => C::Raw(cv.verif_ptr() as usize),
            Cur::Seen(k) => {
                let a = w(|w| {
                    let v = &w.seen[ctx.th];
                    if v.is_empty() {
                        0
                    } else {
                        v[v.len() - 1 - (k as usize % v.len())]
                    }
                });
                C::Raw(a)
            }
            Cur::H(h) => {
                let hv = w(|w| w.handles[hslot(ctx, h)].take());
                match hv {
                    None => C::Raw(cv.verif_ptr() as usize),
                    Some(hv) => {
                        let a = hv.addr();
                        let c2 = hv.clone_val();
                        w(|w| w.handles[hslot(ctx, h)] = Some(hv));
                        match T::from_h(c2) {
                            Ok(t) => C::Val(t),
                            Err(o) => {
                                drop(o);
                                C::Raw(a)
                            }
                        }
                    }
                }
            }
            Cur::G(gs) => {
                let e = w(|w| w.guards[gslot(ctx, gs)].take());
                match e {
                    None => C::Raw(cv.verif_ptr() as usize),
                    Some(e) => {
                        let GEntry { g: ag, uid, addr, cont } = e;
                        match unwrap_guard(ag) {
                            Ok(gd) => {
                                if form == 2 {
                                    // consumed by the call; stays enumerable as a temp until then
                                    C::GuardOwn(gd)
                                } else {
                                    // the guard is borrowed; remember where it goes back
                                    // (a guard of a weak pointer does not keep the value alive:
                                    // it is no owner as far as destruction is concerned)
                                    w(|w| {
                                        let weak = w.conts.get(cont as usize).map(|e| e.kind == CKind::WD as u8).unwrap_or(false);
                                        if !weak {
                                            w.inflight_guard_uids.push(uid);
                                        }
                                    });
                                    let shell = (uid, addr, cont);
                                    C::GuardRef(shell, gd, gs)
                                }
                            }
                            Err(ag) => {
                                let a = addr;
                                w(|w| w.guards[gslot(ctx, gs)] = Some(GEntry { g: ag, uid, addr, cont }));
                                C::Raw(a)
                            }
                        }
                    }
                }
            }
        };
        let exp_addr = match &cu {
            C::Val(t) => t.addr(),
            C::GuardRef(_, gd, _) => PtrT::addr(&**gd),
            C::GuardOwn(gd) => PtrT::addr(&**gd),
            C::Raw(a) => *a,
        };
        let mut exp_uid = match &cu {
            C::Val(t) => Some(t.peek_uid()),
            C::GuardRef(_, gd, _) => Some(PtrT::peek_uid(&**gd)),
            C::GuardOwn(gd) => Some(PtrT::peek_uid(&**gd)),
            C::Raw(_) => None,
        };
        // A raw form was requested for a value we hold: degrade to its address.
        if form >= 3 {
            if let C::Val(t) = cu {
                drop(t);
                cu = C::Raw(exp_addr);
                exp_uid = None;
            }
        }
        let r = rec_begin();
        let res: Option<Guard<T, S>> = match cu {
            C::Val(t) => {
                let out = guarded("compare_and_swap", || cv.compare_and_swap(&t, new));
                drop(t);
                out
            }
            C::GuardRef(shell, gd, gs) => {
                let out = if form == 1 {
                    guarded("compare_and_swap", || cv.cas_guard_ref(&gd, new))
                } else {
                    guarded("compare_and_swap", || cv.compare_and_swap(&*gd, new))
                };
                // put the borrowed guard back
                let (uid, addr, cont) = shell;
                w(|w| {
                    let weak = w.conts.get(cont as usize).map(|e| e.kind == CKind::WD as u8).unwrap_or(false);
                    if !weak {
                        if let Some(i) = w.inflight_guard_uids.iter().position(|u| *u == uid) {
                            w.inflight_guard_uids.remove(i);
                        }
                    }
                });
                w(|w| w.guards[gslot(ctx, gs)] = Some(GEntry { g: wrap(gd), uid, addr, cont }));
                out
            }
            C::GuardOwn(gd) => guarded("compare_and_swap", move || cv.cas_guard_own(gd, new)),
            C::Raw(a) => {
                if form == 4 {
                    guarded("compare_and_swap", || cv.compare_and_swap(a as *mut Slot, new))
                } else {
                    guarded("compare_and_swap", || cv.compare_and_swap(a as *const Slot, new))
                }
            }
        };
        match res {
            Some(gd) => {
                let ag = wrap(gd);
                let uid = ag.uid_touch();
                let addr = ag.addr();
                rec_end(ctx, r, c, CallKind::Cas, arg, exp_addr, (uid, addr), true);
                w(|w| w.hist.last_mut().unwrap().exp_uid = exp_uid);
                note_seen(ctx, addr);
                Some(GEntry { g: ag, uid, addr, cont: c })
            }
            None => {
                rec_end(ctx, r, c, CallKind::Cas, arg, exp_addr, (0, 0), false);
                w(|w| w.hist.last_mut().unwrap().exp_uid = exp_uid);
                None
            }
        }
    }

    let out = match &*cont {
        Cont::AD(cv) => go(ctx, c, cv, cur, form, v, &|g| if let AnyGuard::AD(x) = g { Ok(x) } else { Err(g) }, &AnyGuard::AD),
        Cont::AF(cv) => go(ctx, c, cv, cur, form, v, &|g| if let AnyGuard::AF(x) = g { Ok(x) } else { Err(g) }, &AnyGuard::AF),
        Cont::OD(cv) => go(ctx, c, cv, cur, form, v, &|g| if let AnyGuard::OD(x) = g { Ok(x) } else { Err(g) }, &AnyGuard::OD),
        Cont::OF(cv) => go(ctx, c, cv, cur, form, v, &|g| if let AnyGuard::OF(x) = g { Ok(x) } else { Err(g) }, &AnyGuard::OF),
        Cont::BD(cv) => go(ctx, c, cv, cur, form, v, &|g| if let AnyGuard::BD(x) = g { Ok(x) } else { Err(g) }, &AnyGuard::BD),
        Cont::BF(cv) => go(ctx, c, cv, cur, form, v, &|g| if let AnyGuard::BF(x) = g { Ok(x) } else { Err(g) }, &AnyGuard::BF),
        Cont::WD(cv) => go(ctx, c, cv, cur, form, v, &|g| if let AnyGuard::WD(x) = g { Ok(x) } else { Err(g) }, &AnyGuard::WD),
    };
    if let Some(e) = out {
        w(|w| w.guards[gslot(ctx, g)] = Some(e));
    }
    w(|w| w.writes_done[ctx.th] += 1);
    rt::op_end();
}

fn op_rcu(ctx: Ctx, c: u8, spec: RcuSpec, h: u8) {
    let Some(cont) = get_cont(c) else { return };
    let other = spec.load_other.and_then(get_cont);
    op_drop_handle(ctx, h);
    rt::op_begin(OP_RCU);
    fn go<T: PtrT, S: arc_swap::strategy::CaS<T>>(
        ctx: Ctx,
        c: u8,
        cv: &ArcSwapAny<T, S>,
        spec: RcuSpec,
        other: Option<Rc<Cont>>,
        h: u8,
    ) {
        let r0 = rec_begin();
        let mut attempt = 0u8;
        let mut last_in: (u32, usize) = (0, 0);
        let mut last_out: (u32, usize) = (0, 0);
        let mut seen: Vec<(u32, usize, u64)> = Vec::new();
        let mut produced: Vec<u32> = Vec::new();
        let mut last_fresh = true;
        // set when the unwinding starts inside the closure (then this attempt never reached its
        // compare-and-swap, and no earlier attempt installed anything)
        let mut in_closure_panic = false;
        let res = guarded("rcu", || {
            cv.rcu(|cur: &T| {
                attempt += 1;
                let in_uid = cur.uid_touch();
                let in_val = cur.val_touch();
                last_in = (in_uid, cur.addr());
                seen.push((in_uid, cur.addr(), stamp()));
                if let Some(o) = &other {
                    // re-entrancy: a load of another (or the same) container inside the closure
                    let u = with_cont!(&**o, ov, _wr => { let g = ov.load(); let u = PtrT::uid_touch(&*g); drop(g); u });
                    let _ = u;
                }
                if attempt <= spec.interfere {
                    // force our own compare-and-swap to fail
                    let x: T = T::fresh(next_payload());
                    let xa = (x.peek_uid(), x.addr());
                    note_stored(c, xa.1);
                    let rr = rec_begin();
                    // The store takes effect at its exchange; a panic can only come afterwards
                    // (destructor of the replaced value), so it is recorded either way.
                    let res = catch_unwind(AssertUnwindSafe(|| cv.store(x)));
                    rec_end(ctx, rr, c, CallKind::Store, xa, 0, (0, 0), true);
                    if let Err(e) = res {
                        in_closure_panic = true;
                        std::panic::resume_unwind(e);
                    }
                }
                if spec.panic_at != 0 && attempt == spec.panic_at {
                    in_closure_panic = true;
                    std::panic::resume_unwind(Box::new(UserPanic("rcu closure")));
                }
                let _ = in_val;
                let new = match spec.out {
                    1 => T::null(),
                    2 => Some(cur.clone()),
                    _ => None,
                };
                last_fresh = new.is_none();
                let new = new.unwrap_or_else(|| T::fresh(next_payload()));
                last_out = (new.peek_uid(), new.addr());
                note_stored(c, last_out.1);
                if last_fresh {
                    produced.push(last_out.0);
                }
                new
            })
        });
        let resp_clock_kind = res.is_some();
        // Every closure input was the container's value at some instant of the call.
        for (i, (u, a, st)) in seen.iter().enumerate() {
            let _ = i;
            let resp = *st;
            let tid = rt::current();
            w(|w| {
                w.hist.push(Call {
                    th: ctx.th as u8,
                    tid,
                    c,
                    kind: CallKind::RcuSeen,
                    arg: 0,
                    arg_addr: 0,
                    exp_addr: 0,
                    exp_uid: None,
                    ret: *u,
                    ret_addr: *a,
                    inv: r0.inv,
                    resp,
                    inv_clock: r0.inv_clock,
                    resp_clock: rt::clock_of_current(),
                    completed: true,
                    steps: 0,
                })
            });
        }
        match res {
            Some(prev) => {
                let hv = prev.into_h();
                let ret = (hv.uid(), hv.addr());
                if ret.0 != last_in.0 {
                    rt::fail(
                        "rcu",
                        format!(
                            "rcu returned uid={} but the installed value was computed from uid={}",
                            ret.0, last_in.0
                        ),
                    );
                }
                // The installation itself: a swap(last_out) returning ret, somewhere after the
                // last closure call.
                let inv = seen.last().map(|s| s.2).unwrap_or(r0.inv);
                let r = Rec {
                    inv,
                    inv_clock: r0.inv_clock,
                };
                rec_end(ctx, r, c, CallKind::Rcu, last_out, 0, ret, true);
                // Discarded attempts: must be dead by the next quiescent point and never visible.
                if last_fresh {
                    produced.pop();
                }
                w(|w| w.discarded.extend(produced.iter().copied()));
                w(|w| w.handles[hslot(ctx, h)] = Some(hv));
            }
            None if in_closure_panic => {
                // closure panicked: nothing may have been installed by this call
                w(|w| w.discarded.extend(produced.iter().copied()));
            }
            None => {
                // The unwinding started elsewhere: a destructor that ran inside the last attempt's
                // compare-and-swap, i.e. possibly AFTER its exchange (the writer's debt walk comes
                // after it). The last result may therefore be installed: the installation is an
                // optional write in the history, and only the earlier results count as discarded.
                if !seen.is_empty() {
                    let inv = seen.last().map(|s| s.2).unwrap_or(r0.inv);
                    let r = Rec {
                        inv,
                        inv_clock: r0.inv_clock,
                    };
                    rec_end(ctx, r, c, CallKind::Rcu, last_out, 0, (0, 0), false);
                }
                if last_fresh {
                    produced.pop();
                }
                w(|w| w.discarded.extend(produced.iter().copied()));
            }
        }
        let _ = resp_clock_kind;
    }
    with_cont!(&*cont, cv, _wr => go(ctx, c, cv, spec, other, h));
    w(|w| w.writes_done[ctx.th] += 1);
    rt::op_end();
}

/// Gives up this thread's share of the container; the last share drops (or consumes) it.
fn op_release(ctx: Ctx, c: u8, into_inner: Option<u8>) {
    // Sharing a container between threads and later gaining exclusive access to it needs
    // synchronisation in any real program (e.g. the count of an Arc<ArcSwap>): everybody who
    // lets go releases, the one who ends up with it acquires.
    let chan = w(|w| {
        let e = w.conts.get(c as usize)?;
        if e.shares & (1u32 << ctx.th) == 0 {
            return None;
        }
        Some(e.chan)
    });
    let Some(chan) = chan else { return };
    rt::chan_release(chan);
    let last = w(|w| {
        let Some(e) = w.conts.get_mut(c as usize) else { return None };
        let bit = 1u32 << ctx.th;
        if e.shares & bit == 0 {
            return None;
        }
        e.shares &= !bit;
        if e.shares == 0 {
            e.c.take()
        } else {
            None
        }
    });
    let Some(rc) = last else { return };
    rt::chan_acquire(chan);
    finish_cont(ctx, c, rc, into_inner);
}

fn finish_cont(ctx: Ctx, c: u8, rc: Rc<Cont>, into_inner: Option<u8>) {
    let cont = match Rc::try_unwrap(rc) {
        Ok(c) => c,
        Err(rc) => {
            // somebody is still inside an operation on it (cannot happen: shares track access)
            w(|w| w.conts[c as usize].c = Some(rc));
            return;
        }
    };
    // (No operation of its own may come between taking the container out of the table and the
    // call that ends it: at a quiescent instant in between nobody would be seen to own its value.
    // The handle slot that receives the result is emptied afterwards, inside the same operation.)
    // the container has moved out of the table: remember where its storage lives now
    let (st_addr, st_kind) = (storage_addr_of(&cont), w(|w| w.conts[c as usize].kind));
    let me_tid = rt::current();
    w(|w| {
        w.inflight_storages.push((st_addr, st_kind));
        if w.dropping_kind.len() <= me_tid {
            w.dropping_kind.resize(me_tid + 1, None);
        }
        w.dropping_kind[me_tid] = Some(st_kind);
    });
    rt::op_begin(if into_inner.is_some() { OP_INTO_INNER } else { OP_DROP_CONT });
    let r = rec_begin();
    match into_inner {
        Some(h) => {
            let res = guarded("into_inner", move || with_cont!(cont, cv, _wr => cv.into_inner().into_h()));
            if let Some(hv) = res {
                let ret = (hv.uid(), hv.addr());
                rec_end(ctx, r, c, CallKind::IntoInner, (0, 0), 0, ret, true);
                let old = w(|w| w.handles[hslot(ctx, h)].replace(hv));
                if let Some(old) = old {
                    let _ = guarded("drop(handle)", move || drop(old));
                }
            }
        }
        None => {
            let _ = guarded("drop(container)", move || drop(cont));
            rec_end(ctx, r, c, CallKind::DropCont, (0, 0), 0, (0, 0), true);
        }
    }
    w(|w| {
        if let Some(k) = w.dropping_kind.get_mut(me_tid) {
            *k = None;
        }
    });
    rt::op_end();
}

fn op_drop_handle(ctx: Ctx, h: u8) {
    let hv = w(|w| w.handles[hslot(ctx, h)].take());
    if let Some(hv) = hv {
        rt::op_begin(OP_HANDLE);
        let _ = guarded("drop(handle)", move || drop(hv));
        rt::op_end();
    }
}

fn op_clone_handle(ctx: Ctx, h: u8, h2: u8) {
    if hslot(ctx, h) == hslot(ctx, h2) {
        return;
    }
    op_drop_handle(ctx, h2);
    let hv = w(|w| w.handles[hslot(ctx, h)].take());
    if let Some(hv) = hv {
        rt::op_begin(OP_HANDLE);
        let c2 = hv.clone_val();
        w(|w| {
            w.handles[hslot(ctx, h)] = Some(hv);
            w.handles[hslot(ctx, h2)] = Some(c2);
        });
        rt::op_end();
    }
}

fn op_arm_panic(ctx: Ctx, h: u8) {
    w(|w| {
        if let Some(hv) = &w.handles[hslot(ctx, h)] {
            hv.set_panic_on_drop(true);
            w.armed += 1;
        }
    });
}

fn op_arm_stored(_ctx: Ctx, c: u8) {
    let Some(cont) = get_cont(c) else { return };
    let addr = peek_cont_ptr(&cont);
    if addr != 0 && arena::arm_panic_at(addr) {
        w(|w| w.armed += 1);
    }
}

fn op_arm_drop_op(c: u8, into: u8, load: bool) {
    let Some(cont) = get_cont(c) else { return };
    let addr = peek_cont_ptr(&cont);
    let code = 1 + ((into & 0x3f) << 1) + load as u8;
    if addr != 0 && arena::arm_action_at(addr, code) {
        w(|w| *w.extra_counts.entry("destructors_armed_with_nested_op".into()).or_insert(0) += 1);
    }
}

/// Called from a pointee's destructor that was armed with a nested operation: user code inside
/// the crate's call that calls back into the crate, on whatever simulated thread happens to
/// release the last count.
pub fn run_drop_action(code: u8) {
    let code = code - 1;
    let (into, load) = (code >> 1, code & 1 == 1);
    let me = rt::current();
    let th = w(|w| w.tids.iter().position(|t| *t == Some(me)).unwrap_or(0));
    let ctx = Ctx { th };
    w(|w| *w.extra_counts.entry("nested_ops_run_by_destructors".into()).or_insert(0) += 1);
    if load {
        op_load(ctx, into, None);
    } else {
        op_store(ctx, into, V::New);
    }
}

fn op_spawn(_ctx: Ctx, t: u8) {
    let ok = w(|w| (t as usize) < w.tids.len() && w.tids[t as usize].is_none() && !w.spawned[t as usize]);
    if !ok {
        return;
    }
    spawn_thread(t as usize);
}

pub fn spawn_thread(t: usize) {
    w(|w| w.spawned[t] = true);
    let tid = rt::spawn(Box::new(move || thread_main(t)));
    w(|w| w.tids[t] = Some(tid));
}

fn op_join(_ctx: Ctx, t: u8) {
    let tid = w(|w| w.tids.get(t as usize).copied().flatten());
    if let Some(tid) = tid {
        let already = w(|w| w.joined[t as usize]);
        if !already {
            rt::join(tid);
            w(|w| w.joined[t as usize] = true);
        }
    }
}

fn op_barrier(_ctx: Ctx, id: u8, n: u8) {
    if n < 2 {
        return;
    }
    let (sem, arrived) = w(|w| {
        let id = id as usize % w.barriers.len();
        w.barriers[id].1 += 1;
        (w.barriers[id].0, w.barriers[id].1)
    });
    if arrived == n as u32 {
        for _ in 0..(n - 1) {
            rt::sem_post(sem);
        }
    } else {
        rt::sem_wait(sem);
    }
}

// Thread-local whose destructor performs operations at thread exit.
pub struct TlsDtor {
    pub ops: std::cell::RefCell<Vec<Op>>,
    pub th: std::cell::Cell<usize>,
}
impl Drop for TlsDtor {
    fn drop(&mut self) {
        if rt::is_aborting() {
            return;
        }
        let ops = self.ops.take();
        let ctx = Ctx { th: self.th.get() };
        w(|w| w.tls_dtor_runs += 1);
        for op in ops.iter() {
            exec_op(ctx, op);
        }
    }
}
verif_rt::thread_local! {
    static TLS_A: TlsDtor = TlsDtor { ops: std::cell::RefCell::new(Vec::new()), th: std::cell::Cell::new(0) };
    static TLS_B: TlsDtor = TlsDtor { ops: std::cell::RefCell::new(Vec::new()), th: std::cell::Cell::new(0) };
}

fn op_tls(ctx: Ctx, ops: &[Op]) {
    let n = w(|w| {
        w.tls_regs[ctx.th] += 1;
        w.tls_regs[ctx.th]
    });
    let set = |d: &TlsDtor| {
        d.th.set(ctx.th);
        d.ops.borrow_mut().extend(ops.iter().cloned());
    };
    if n == 1 {
        TLS_A.with(set);
    } else {
        TLS_B.with(set);
    }
}

fn op_set_gen(ctx: Ctx, off: i32) {
    // The counter may only be moved forward, once: presetting it twice would rewind it and
    // reuse generations without the cooldown that protects a real wrap-around (an artefact of
    // the knob, not a reachable state).
    let first = w(|w| {
        if w.gen_set[ctx.th] {
            false
        } else {
            w.gen_set[ctx.th] = true;
            true
        }
    });
    if !first {
        return;
    }
    let g = 0usize.wrapping_sub(4 * off.max(0) as usize);
    arc_swap::verif::set_generation(g);
    w(|w| w.gen_presets += 1);
}

pub fn exec_op(ctx: Ctx, op: &Op) {
    if rt::is_aborting() {
        return;
    }
    match op {
        Op::Load { c, g } => op_load(ctx, *c, Some(*g)),
        Op::LoadDrop { c } => op_load(ctx, *c, None),
        Op::LoadFull { c, h } => op_load_full(ctx, *c, *h),
        Op::CheckGuard { g } => op_check_guard(ctx, *g),
        Op::DropGuard { g } => op_drop_guard(ctx, *g),
        Op::GuardIntoInner { g, h } => op_guard_into_inner(ctx, *g, *h),
        Op::GuardFromInner { c, h, g } => op_guard_from_inner(ctx, *c, *h, *g),
        Op::SendGuard { g, to } => op_send_guard(ctx, *g, *to),
        Op::RecvDrop => op_recv_drop(ctx),
        Op::Store { c, v } => op_store(ctx, *c, *v),
        Op::Swap { c, v, h } => op_swap(ctx, *c, *v, *h),
        Op::Cas { c, cur, form, v, g } => op_cas(ctx, *c, *cur, *form, *v, *g),
        Op::Rcu { c, r, h } => op_rcu(ctx, *c, *r, *h),
        Op::IntoInner { c, h } => op_release(ctx, *c, Some(*h)),
        Op::ReleaseCont { c } => op_release(ctx, *c, None),
        Op::DropHandle { h } => op_drop_handle(ctx, *h),
        Op::CloneHandle { h, h2 } => op_clone_handle(ctx, *h, *h2),
        Op::ArmDropPanic { h } => op_arm_panic(ctx, *h),
        Op::ArmStored { c } => op_arm_stored(ctx, *c),
        Op::ArmProjPanic { k } => crate::extras::op_arm_proj_panic(*k),
        Op::StdArc { variant } => crate::extras::op_std_arc(ctx, *variant),
        Op::ArmDropOp { c, into, load } => op_arm_drop_op(*c, *into, *load),
        Op::Spawn { t } => op_spawn(ctx, *t),
        Op::Join { t } => op_join(ctx, *t),
        Op::TlsOp { ops } => op_tls(ctx, ops),
        Op::SetGen { off } => op_set_gen(ctx, *off),
        Op::Barrier { id, n } => op_barrier(ctx, *id, *n),
        Op::CacheNew { c, k } => crate::extras::op_cache_new(ctx, *c, *k),
        Op::CacheLoad { k } => crate::extras::op_cache_load(ctx, *k),
        Op::CacheClone { k, k2 } => crate::extras::op_cache_clone(ctx, *k, *k2),
        Op::CacheDrop { k } => crate::extras::op_cache_drop(ctx, *k),
        Op::AccLoad { c, depth, dynamic, a } => crate::extras::op_acc_load(ctx, *c, *depth, *dynamic, *a),
        Op::AccCheck { a } => crate::extras::op_acc_check(ctx, *a),
        Op::AccDrop { a } => crate::extras::op_acc_drop(ctx, *a),
        Op::Loop { ops, until, max } => {
            for _ in 0..*max {
                let done = w(|w| w.finished.get(*until as usize).copied().unwrap_or(true));
                if done || rt::is_aborting() {
                    break;
                }
                for o in ops.iter() {
                    exec_op(ctx, o);
                }
            }
        }
    }
}

fn thread_main(t: usize) {
    let ops = w(|w| w.prog.threads[t].ops.clone());
    let ctx = Ctx { th: t };
    for op in ops.iter() {
        exec_op(ctx, op);
        if rt::is_aborting() {
            return;
        }
    }
    // drain the mailbox without blocking
    loop {
        let before = w(|w| w.mail[t].queue.len());
        if before == 0 {
            break;
        }
        op_recv_drop(ctx);
        let after = w(|w| w.mail[t].queue.len());
        if after == before {
            break;
        }
    }
    w(|w| w.finished[t] = true);
}

// ---------------------------------------------------------------------------------------------
// Setup, main, final clean-up
// ---------------------------------------------------------------------------------------------

fn make_cont(kind: CKind, init: HVal) -> Cont {
    fn a(h: HVal) -> SA {
        match SA::from_h(h) {
            Ok(x) => x,
            Err(_) => SA::new(next_payload()),
        }
    }
    fn o(h: HVal) -> Option<SA> {
        match <Option<SA>>::from_h(h) {
            Ok(x) => x,
            Err(_) => None,
        }
    }
    fn b(h: HVal) -> SB {
        match SB::from_h(h) {
            Ok(x) => x,
            Err(_) => SB::new(next_payload()),
        }
    }
    match kind {
        CKind::AD => Cont::AD(ArcSwapAny::new(a(init))),
        CKind::AF => Cont::AF(ArcSwapAny::new(a(init))),
        CKind::OD => Cont::OD(ArcSwapAny::new(o(init))),
        CKind::OF => Cont::OF(ArcSwapAny::new(o(init))),
        CKind::BD => Cont::BD(ArcSwapAny::new(b(init))),
        CKind::BF => Cont::BF(ArcSwapAny::new(b(init))),
        CKind::WD => Cont::WD(ArcSwapAny::new(match WA::from_h(init) {
            Ok(x) => x,
            Err(_) => WA::dangling(),
        })),
    }
}

pub fn setup_world(prog: &Program) {
    // Dispose of the previous execution's world BEFORE the arena goes away. After a completed
    // execution every pool is empty and everything is simply freed; after an aborted one the
    // pools still hold guards/handles/containers whose destructors must not run (they point
    // into an execution that was abandoned mid-flight): those elements are leaked, nothing else.
    WORLD.with(|wc| {
        let mut old = std::mem::take(&mut *wc.borrow_mut());
        for g in old.guards.drain(..).flatten() {
            std::mem::forget(g);
        }
        for g in old.tmp_guards.drain(..) {
            std::mem::forget(g);
        }
        for h in old.handles.drain(..).flatten() {
            std::mem::forget(h);
        }
        for m in old.mail.drain(..) {
            for g in m.queue {
                std::mem::forget(g);
            }
        }
        for c in old.conts.drain(..) {
            if let Some(rc) = c.c {
                std::mem::forget(rc);
            }
        }
        for c in old.caches.drain(..).flatten() {
            std::mem::forget(c);
        }
        for a in old.accs.drain(..).flatten() {
            std::mem::forget(a);
        }
        drop(old);
    });
    arena::reset();
    arena::set_on_destroy(on_destroy);
    WORLD.with(|wc| {
        let mut nw = World::default();
        let n = prog.threads.len();
        nw.prog = prog.clone();
        nw.n_threads = n;
        nw.guards = (0..n * SLOTS_PER_THREAD).map(|_| None).collect();
        nw.handles = (0..n * SLOTS_PER_THREAD).map(|_| None).collect();
        nw.caches = (0..n * 4).map(|_| None).collect();
        nw.accs = (0..n * 4).map(|_| None).collect();
        nw.tids = vec![None; n];
        nw.spawned = vec![false; n];
        nw.joined = vec![false; n];
        nw.finished = vec![false; n];
        nw.seen = vec![Vec::new(); n];
        nw.writes_done = vec![0; n];
        nw.tls_regs = vec![0; n];
        nw.gen_set = vec![false; n];
        nw.prog_readonly_churn = {
            let t = serde_json::to_string(&prog.threads).unwrap_or_default();
            !["Store", "Swap", "Cas", "Rcu", "IntoInner", "ReleaseCont", "SetGen", "Cache"].iter().any(|k| t.contains(k))
                && t.contains("Spawn")
        };
        nw.prog_wants_access = serde_json::to_string(prog).map(|t| t.contains("AccLoad")).unwrap_or(false);
        *wc.borrow_mut() = nw;
    });
}

/// Body of simulated thread 0.
pub fn main_thread() {
    let prog = w(|w| w.prog.clone());
    let n = prog.threads.len();
    // harness-level synchronisation objects
    let sems: Vec<usize> = (0..n).map(|_| rt::sem_new()).collect();
    let bsem = rt::sem_new();
    w(|w| {
        w.mail = sems.iter().map(|s| Mailbox { sem: *s, queue: Vec::new() }).collect();
        w.barriers = vec![(bsem, 0)];
        w.tids[0] = Some(0);
        w.spawned[0] = true;
    });
    // containers
    let all_shares: u32 = (0..n).fold(0, |m, t| m | (1 << t));
    let mut inits: Vec<HVal> = Vec::new();
    for cs in prog.conts.iter() {
        let hv = match cs.init {
            Init::New => {
                if cs.kind.pointee() == 2 {
                    HVal::B(Some(SB::new(next_payload())))
                } else {
                    HVal::A(Some(SA::new(next_payload())))
                }
            }
            Init::Null => HVal::A(None),
            Init::WeakOf(j) => match inits.get(j as usize) {
                Some(HVal::A(Some(x))) => HVal::W(x.downgrade()),
                _ => HVal::W(WA::dangling()),
            },
            Init::SameAs(j) => match inits.get(j as usize) {
                Some(h) if cs.kind.pointee() == 1 && matches!(h, HVal::A(_)) => h.clone_val(),
                Some(h) if cs.kind.pointee() == 2 && matches!(h, HVal::B(_)) => h.clone_val(),
                _ => {
                    if cs.kind.pointee() == 2 {
                        HVal::B(Some(SB::new(next_payload())))
                    } else {
                        HVal::A(Some(SA::new(next_payload())))
                    }
                }
            },
        };
        inits.push(hv);
    }
    for (i, cs) in prog.conts.iter().enumerate() {
        let hv = inits[i].clone_val();
        let hv = if !cs.kind.nullable() && hv.peek_uid() == 0 {
            HVal::A(Some(SA::new(next_payload())))
        } else {
            hv
        };
        let (u, a) = (hv.peek_uid(), hv.addr());
        let cont = make_cont(cs.kind, hv);
        // make_cont may have substituted a fresh value on kind mismatch
        let a2 = peek_cont_ptr(&cont);
        let u2 = if a2 == a { u } else { arena::slot_at(a2).map(|x| x.1).unwrap_or(0) };
        w(|w| {
            if a2 != 0 {
                let e = w.addr_seen_in.entry(a2).or_insert((false, false));
                if cs.kind == CKind::WD {
                    e.1 = true;
                } else {
                    e.0 = true;
                }
            }
            w.conts.push(ContEntry {
                c: Some(Rc::new(cont)),
                shares: all_shares,
                chan: rt::sem_new(),
                init_uid: u2,
                init_addr: a2,
                kind: cs.kind as u8,
            })
        });
    }
    drop(inits);
    let ctx = Ctx { th: 0 };
    // top-level workers
    for t in 1..n {
        if prog.threads[t].top {
            spawn_thread(t);
        }
    }
    // main's own operations
    for op in prog.threads[0].ops.iter() {
        exec_op(ctx, op);
        if rt::is_aborting() {
            return;
        }
    }
    // join everything that was ever spawned (children may spawn late)
    loop {
        let next = w(|w| {
            (1..w.n_threads).find(|t| w.spawned[*t] && !w.joined[*t] && w.tids[*t].is_some())
        });
        match next {
            Some(t) => op_join(ctx, t as u8),
            None => break,
        }
    }
    if rt::is_aborting() {
        return;
    }
    w(|w| w.finished[0] = true);
    final_cleanup(ctx, prog.final_order);
}

fn final_cleanup(ctx: Ctx, order: u8) {
    run_ledger("after all threads joined");
    // caches and projection guards keep their container alive (like an Arc would): they go first
    crate::extras::final_drop_extras(ctx);
    if rt::is_aborting() {
        return;
    }
    let steps: [u8; 4] = match order % 4 {
        0 => [0, 1, 2, 3],
        1 => [3, 0, 1, 2],
        2 => [1, 3, 0, 2],
        _ => [2, 3, 1, 0],
    };
    for s in steps {
        match s {
            0 => {
                // guards left in slots and mailboxes (possibly created by threads that exited)
                loop {
                    let e = w(|w| {
                        for g in w.guards.iter_mut() {
                            if g.is_some() {
                                return g.take();
                            }
                        }
                        for m in w.mail.iter_mut() {
                            if !m.queue.is_empty() {
                                return Some(m.queue.remove(0));
                            }
                        }
                        None
                    });
                    let Some(e) = e else { break };
                    let tok = tmp_push(e);
                    rt::op_begin(OP_GUARD_DROP);
                    let e = tmp_take(tok).unwrap();
                    drop_guard_entry(e, "final drop(guard)");
                    rt::op_end();
                    if rt::is_aborting() {
                        return;
                    }
                }
            }
            1 => {
                for i in 0..w(|w| w.handles.len()) {
                    let hv = w(|w| w.handles[i].take());
                    if let Some(hv) = hv {
                        rt::op_begin(OP_HANDLE);
                        let _ = guarded("drop(handle)", move || drop(hv));
                        rt::op_end();
                    }
                    if rt::is_aborting() {
                        return;
                    }
                }
            }
            2 => {
                for c in 0..w(|w| w.conts.len()) {
                    let rc = w(|w| {
                        w.conts[c].shares = 0;
                        w.conts[c].c.take()
                    });
                    if let Some(rc) = rc {
                        // half of the containers end by being consumed (into_inner), half by Drop
                        let consume = ((order >> 2) as usize + c) % 2 == 1;
                        finish_cont(ctx, c as u8, rc, if consume { Some(3) } else { None });
                    }
                    if rt::is_aborting() {
                        return;
                    }
                }
            }
            _ => {}
        }
    }
    // what into_inner handed out (and anything else that is left)
    for i in 0..w(|w| w.handles.len()) {
        let hv = w(|w| w.handles[i].take());
        if let Some(hv) = hv {
            rt::op_begin(OP_HANDLE);
            let _ = guarded("drop(handle)", move || drop(hv));
            rt::op_end();
        }
        if rt::is_aborting() {
            return;
        }
    }
    run_ledger("final");
    if rt::is_aborting() {
        return;
    }
    final_state_check();
}

/// After everything was dropped: every object destroyed exactly once, every slot empty.
fn final_state_check() {
    for (addr, st, uid, strong) in arena::all_slots() {
        if st == arena::ST_LIVE {
            rt::fail(
                "leak",
                format!("object uid={} still alive (strong={}) after every owner was dropped", uid, strong),
            );
            return;
        }
        if st == arena::ST_DEAD {
            rt::fail(
                "leak",
                format!("allocation of uid={} still held by a weak count of {} after every owner was dropped", uid, arena::weak_at(addr)),
            );
            return;
        }
    }
    let n = arena::n_objs();
    for u in 1..=n as u32 {
        let o = arena::obj_info(u).unwrap();
        if o.destroyed != 1 {
            rt::fail("double-release", format!("object uid={} destroyed {} times", u, o.destroyed));
            return;
        }
    }
    // C11: with no writer anywhere in the program, a released node is always reusable by the
    // next thread, so the number of nodes is bounded by the number of threads that ever existed
    // at the same time (+1 slack for the non-atomic traversal), not by the number of threads
    // ever created.
    if w(|w| w.prog_readonly_churn) {
        let nodes = arc_swap::verif::nodes().len() as u64;
        let peak = rt::peak_live_threads();
        w(|w| {
            *w.extra_counts.entry("node_bound_checks".into()).or_insert(0) += 1;
            let e = w.extra_counts.entry("max_nodes_in_bound_check".into()).or_insert(0);
            *e = (*e).max(nodes);
        });
        if nodes > peak + 1 {
            rt::fail(
                "node-bound",
                format!(
                    "{} nodes exist although at most {} threads ever lived at the same time (read-only churn: released nodes must be reused)",
                    nodes, peak
                ),
            );
            return;
        }
    }
    for nd in arc_swap::verif::nodes() {
        for (i, s) in nd.slots.iter().enumerate() {
            if *s != arc_swap::verif::NO_DEBT {
                rt::fail("ledger", format!("debt slot {} of a node still occupied at the end", i));
                return;
            }
        }
        if nd.control != 0 || nd.active_writers != 0 {
            rt::fail(
                "ledger",
                format!("node left with control={:#x} active_writers={}", nd.control, nd.active_writers),
            );
            return;
        }
    }
}

// ---------------------------------------------------------------------------------------------
// Oracles evaluated during the run
// ---------------------------------------------------------------------------------------------

/// Destroy hook: nobody may still own the object.
fn on_destroy(uid: u32) {
    if rt::is_aborting() {
        return;
    }
    let addr = arena::obj_info(uid).map(|o| o.addr).unwrap_or(0);
    let owner = w(|w| {
        // (weak containers, weak handles and guards on weak pointers do not keep a value alive)
        let weak_cont = |w: &World, c: u8| w.conts.get(c as usize).map(|e| e.kind == CKind::WD as u8).unwrap_or(false);
        for e in w.conts.iter() {
            if let Some(c) = &e.c {
                if e.kind != CKind::WD as u8 && peek_cont_ptr(c) == addr {
                    return Some("a container stores it".to_string());
                }
            }
        }
        if w.inflight_guard_uids.iter().any(|u| *u == uid) {
            return Some("a live guard (lent to compare_and_swap) denotes it".to_string());
        }
        for h in w.handles.iter().flatten() {
            if !h.is_weak() && h.peek_uid() == uid {
                return Some("an owned handle refers to it".to_string());
            }
        }
        for g in w.guards.iter().flatten().chain(w.tmp_guards.iter()) {
            if g.uid == uid && !weak_cont(w, g.cont) {
                return Some("a live guard denotes it".to_string());
            }
        }
        for m in w.mail.iter() {
            for g in m.queue.iter() {
                if g.uid == uid && !weak_cont(w, g.cont) {
                    return Some("a guard in transit to another thread denotes it".to_string());
                }
            }
        }
        crate::extras::extra_owner_of(w, uid)
    });
    if let Some(o) = owner {
        rt::fail("uaf", format!("object uid={} destroyed while {}", uid, o));
    }
}

pub fn quiescent_hook() {
    run_ledger("quiescent");
}

/// The ownership ledger (DESIGN.md 2.9). Only meaningful when no thread is inside an API call.
pub fn run_ledger(when: &str) {
    if rt::is_aborting() || rt::threads_in_api() > 0 {
        return;
    }
    let nodes = arc_swap::verif::nodes();
    rt::set_node_count_hint(nodes.len() as u64);
    let mut debts: BTreeMap<usize, u32> = BTreeMap::new();
    let mut any_debt = false;
    for nd in nodes.iter() {
        for s in nd.slots.iter() {
            if *s != arc_swap::verif::NO_DEBT {
                *debts.entry(*s).or_insert(0) += 1;
                any_debt = true;
            }
        }
        if nd.control != 0 {
            rt::fail(
                "ledger",
                format!("{}: helping control word {:#x} not idle although no operation is in progress", when, nd.control),
            );
            return;
        }
        if nd.active_writers != 0 {
            rt::fail(
                "ledger",
                format!("{}: active_writers={} although no operation is in progress", when, nd.active_writers),
            );
            return;
        }
    }
    let _ = any_debt;
    // owners per address: (containers, handles, guards), strong and weak separately
    let mut own: BTreeMap<usize, (u32, u32, u32)> = BTreeMap::new();
    let mut wown: BTreeMap<usize, (u32, u32, u32)> = BTreeMap::new();
    let mut guard_uid_mismatch: Option<String> = None;
    let mut null_guards: u32 = 0;
    w(|w| {
        w.ledger_checks += 1;
        let weak_kind = CKind::WD as u8;
        for e in w.conts.iter() {
            if let Some(c) = &e.c {
                let p = peek_cont_ptr(c);
                if p != 0 {
                    if e.kind == weak_kind {
                        wown.entry(p).or_default().0 += 1;
                    } else {
                        own.entry(p).or_default().0 += 1;
                    }
                }
            }
        }
        for h in w.handles.iter().flatten() {
            let a = h.addr();
            if a != 0 {
                if h.is_weak() {
                    wown.entry(a).or_default().1 += 1;
                } else {
                    own.entry(a).or_default().1 += 1;
                }
            }
        }
        let kinds: Vec<u8> = w.conts.iter().map(|e| e.kind).collect();
        let mut note_g = |g: &GEntry| {
            if g.addr == 0 {
                null_guards += 1;
            }
            if g.addr != 0 {
                let weak = kinds.get(g.cont as usize).copied() == Some(weak_kind);
                if weak {
                    wown.entry(g.addr).or_default().2 += 1;
                } else {
                    own.entry(g.addr).or_default().2 += 1;
                }
                if let Some((st, uid, _)) = arena::slot_at(g.addr) {
                    let bad = if weak {
                        st == arena::ST_GONE || st == arena::ST_FREE || uid != g.uid
                    } else {
                        st != arena::ST_LIVE || uid != g.uid
                    };
                    if bad {
                        guard_uid_mismatch = Some(format!(
                            "a live guard on uid={} exists but that object is {} (address now uid={})",
                            g.uid,
                            if st == arena::ST_LIVE { "replaced" } else { "destroyed" },
                            uid
                        ));
                    }
                }
            }
        };
        for g in w.guards.iter().flatten() {
            note_g(g);
        }
        for g in w.tmp_guards.iter() {
            note_g(g);
        }
        for m in w.mail.iter() {
            for g in m.queue.iter() {
                note_g(g);
            }
        }
        crate::extras::extra_owners(w, &mut own, &mut null_guards);
    });
    if let Some(m) = guard_uid_mismatch {
        rt::fail("uaf", format!("{}: {}", when, m));
        return;
    }
    for (addr, st, uid, strong) in arena::all_slots() {
        let (c, h, g) = own.get(&addr).copied().unwrap_or((0, 0, 0));
        let (wc, wh, wg) = wown.get(&addr).copied().unwrap_or((0, 0, 0));
        let d = debts.get(&addr).copied().unwrap_or(0);
        let weak = arena::weak_at(addr);
        let detail = format!(
            "uid={} strong={} weak={} | strong owners: containers={} handles={} guards={} | weak owners: containers={} handles={} guards={} | debts={}",
            uid, strong, weak, c, h, g, wc, wh, wg, d
        );
        if st == arena::ST_LIVE {
            if d > g + wg {
                rt::fail(
                    "ledger",
                    format!("{}: {} debt slot(s) hold uid={} but only {} guard(s) on it exist", when, d, uid, g + wg),
                );
                return;
            }
            // std convention: the strong references together hold one weak reference
            let weakx = weak.wrapping_sub(1);
            let total_expected = (c + h + g + wc + wh + wg - d) as usize;
            let s_lo = (c + h) as usize;
            let s_hi = (c + h + g) as usize;
            let w_lo = (wc + wh) as usize;
            let w_hi = (wc + wh + wg) as usize;
            if wc + wh + wg == 0 && weakx == 0 {
                // no weak pointers involved: the exact equation of the strong count
                let expected = (c + h + g - d) as usize;
                if strong != expected {
                    let kind = if strong > expected { "leak" } else { "double-release" };
                    rt::fail(
                        kind,
                        format!(
                            "{}: uid={} strong={} but owners: containers={} handles={} guards={} debts={} (expected {})",
                            when, uid, strong, c, h, g, d, expected
                        ),
                    );
                    return;
                }
            } else if strong < s_lo || strong > s_hi || weakx < w_lo || weakx > w_hi || strong + weakx != total_expected {
                let kind = if strong + weakx > total_expected || weakx > w_hi || strong > s_hi { "leak" } else { "double-release" };
                rt::fail(kind, format!("{}: strong/weak counts do not match the owners: {}", when, detail));
                return;
            }
        } else if st == arena::ST_DEAD {
            if c + h + g > 0 {
                rt::fail(
                    "uaf",
                    format!("{}: destroyed object uid={} still has owners (containers={} handles={} guards={})", when, uid, c, h, g),
                );
                return;
            }
            if d > wg {
                rt::fail(
                    "ledger",
                    format!("{}: a debt slot still refers to destroyed object uid={}", when, uid),
                );
                return;
            }
            // the value is gone, the allocation is kept by weak references only
            let expected = (wc + wh + wg - d) as usize;
            if weak != expected {
                let kind = if weak > expected { "leak" } else { "double-release" };
                rt::fail(kind, format!("{}: weak count of a destroyed value does not match its weak owners: {}", when, detail));
                return;
            }
        } else if st == arena::ST_GONE {
            if c + h + g + wc + wh + wg > 0 {
                rt::fail("uaf", format!("{}: freed allocation still has owners: {}", when, detail));
                return;
            }
            if d > 0 {
                rt::fail("ledger", format!("{}: a debt slot still refers to the freed allocation of uid={}", when, uid));
                return;
            }
        }
    }
    for (a, d) in debts.iter() {
        if *a == 0 {
            // a guard on a null pointer (None) borrows too
            if *d > null_guards {
                rt::fail(
                    "ledger",
                    format!("{}: {} debt slot(s) hold the null pointer but only {} guard(s) on None exist", when, d, null_guards),
                );
                return;
            }
            continue;
        }
        if arena::slot_at(*a).is_none() {
            rt::fail("ledger", format!("{}: debt slot holds {:#x} which is not an object", when, a));
            return;
        }
    }
    // values produced by discarded rcu attempts must be gone by now
    let disc: Vec<u32> = w(|w| w.discarded.clone());
    for u in disc {
        if let Some(o) = arena::obj_info(u) {
            if o.alive {
                rt::fail(
                    "rcu",
                    format!("{}: value uid={} computed by a discarded rcu attempt is still alive", when, u),
                );
                return;
            }
        }
    }
}

/// Node ownership monitor (C11) fed by the claim/release events of the hooks.
pub fn event_hook(id: u32, arg: usize) {
    let me = rt::current();
    if id == verif_rt::OWNER_ONLY_STORE {
        // `active_addr` and `space_offer` of a node are written by the thread that owns the node,
        // and by nobody else ("bookkeeping is never used by two threads at a time").
        let verdict = w(|w| {
            let node = w.nodes_seen.range(..=arg).next_back().copied()?;
            if arg - node > 4096 {
                return None;
            }
            *w.extra_counts.entry("owner_only_store_checks".into()).or_insert(0) += 1;
            match w.node_owner.get(&node) {
                Some(&o) if o == me => None,
                Some(&o) => Some((Some(o), 0, 0)),
                None => {
                    // Released: an alarm only if another thread could claim the node at this very
                    // instant (unused, or cooling down with no writer inside), i.e. some schedule
                    // has two threads using it at once.
                    let info = arc_swap::verif::nodes().into_iter().find(|n| n.addr == node)?;
                    let claimable = info.in_use == 0 || (info.in_use == 2 && info.active_writers == 0);
                    if claimable {
                        Some((None, info.in_use, info.active_writers))
                    } else {
                        None
                    }
                }
            }
        });
        if let Some((o, in_use, aw)) = verdict {
            rt::fail(
                "node-monitor",
                match o {
                    Some(o) => format!("thread {} wrote the helping bookkeeping of a node that thread {} owns", me, o),
                    None => format!(
                        "thread {} wrote the helping bookkeeping of a node it has released and that any thread can claim at this instant (in_use={}, active_writers={})",
                        me, in_use, aw
                    ),
                },
            );
        }
        return;
    }
    if id == verif_rt::WRITER_ENTERED || id == verif_rt::WRITER_LEFT {
        // who is inside which node (writer reservations), for the cooldown invariant below
        w(|w| {
            let Some(node) = w.nodes_seen.range(..=arg).next_back().copied() else { return };
            if arg - node > 4096 {
                return;
            }
            if id == verif_rt::WRITER_ENTERED {
                w.writer_entries += 1;
                let n = w.writer_entries;
                w.writers_inside.push((node, me, n));
            } else if let Some(p) = w.writers_inside.iter().rposition(|e| e.0 == node && e.1 == me) {
                w.writers_inside.remove(p);
            }
        });
        return;
    }
    if (verif_rt::IN_USE_WRITE_BASE..verif_rt::IN_USE_WRITE_BASE + 256).contains(&id) {
        // A node's `in_use` word was written. Anything but USED (1) written by the owner is the
        // release of the node, however the code does it (cooldown or not).
        // (the low two bits are the state; the rest of the word counts the node's claims)
        let new = (id - verif_rt::IN_USE_WRITE_BASE) & 3;
        // The reason for the cooldown: a writer that was inside the node when its owner let it go
        // (it may have read a generation of that owner) must be out before the node can serve
        // anybody else. Checked when the cooldown ends, for every schedule and memory mode.
        let stuck = w(|w| {
            let node = w.nodes_seen.range(..=arg).next_back().copied()?;
            if arg - node > 4096 {
                return None;
            }
            match new {
                2 => {
                    // cooldown starts: remember who is inside (the owner's own reservation in
                    // start_cooldown does not count)
                    w.cooldown_witness.retain(|e| e.0 != node);
                    let inside: Vec<(usize, usize, u64)> = w.writers_inside.iter().filter(|e| e.0 == node && e.1 != me).copied().collect();
                    w.cooldown_witness.extend(inside);
                    None
                }
                0 => {
                    let still = w
                        .cooldown_witness
                        .iter()
                        .find(|e| e.0 == node && w.writers_inside.contains(e))
                        .map(|e| e.1);
                    w.cooldown_witness.retain(|e| e.0 != node);
                    *w.extra_counts.entry("cooldown_end_checks".into()).or_insert(0) += 1;
                    still
                }
                _ => None,
            }
        });
        if let Some(t) = stuck {
            rt::fail(
                "node-monitor",
                format!(
                    "thread {} ended the cooldown of a node while thread {}, a writer that entered it under its previous owner, is still inside",
                    me, t
                ),
            );
            return;
        }
        if new == 1 {
            return;
        }
        let bad = w(|w| {
            let node = w.nodes_seen.range(..=arg).next_back().copied()?;
            if arg - node > 4096 {
                return None;
            }
            match w.node_owner.get(&node).copied() {
                Some(o) if o == me => {
                    w.node_owner.remove(&node);
                    w.live_users = w.live_users.saturating_sub(1);
                    None
                }
                Some(o) => Some(o),
                None => None,
            }
        });
        if let Some(o) = bad {
            rt::fail("node-monitor", format!("thread {} released a node owned by thread {}", me, o));
        }
        return;
    }
    let id = id as usize;
    if id == probes::NODE_CLAIMED || id == probes::NODE_CREATED {
        let prev = w(|w| {
            let p = w.node_owner.insert(arg, me);
            w.nodes_seen.insert(arg);
            w.live_users += 1;
            if w.live_users > w.peak_users {
                w.peak_users = w.live_users;
            }
            if id == probes::NODE_CREATED {
                w.nodes_created += 1;
            } else {
                w.nodes_reclaimed += 1;
            }
            p
        });
        if let Some(p) = prev {
            rt::fail(
                "node-monitor",
                format!("thread {} claimed a node that thread {} still owns", me, p),
            );
        }
    } else if id == probes::PAYALL_ENTER {
        w(|w| {
            if w.payall_depth.len() <= me {
                w.payall_depth.resize(me + 1, 0);
                w.payall_ptr.resize(me + 1, 0);
            }
            w.payall_depth[me] += 1;
            w.payall_ptr[me] = arg;
        });
    } else if id == probes::PAYALL_EXIT {
        w(|w| {
            if let Some(d) = w.payall_depth.get_mut(me) {
                *d = d.saturating_sub(1);
            }
        });
    } else if id == probes::PAYALL_PAID_SLOT {
        // a writer paid the debt in slot `arg`; which storage it works for follows
        w(|w| w.last_paid_slot = arg);
    } else if id == probes::PAID_STORAGE {
        w(|w| {
            let slot = w.last_paid_slot;
            w.paid_by_storage.insert(slot, arg);
            // Is the payer a writer of a weak container paying on an allocation that strong
            // guards borrow (or the other way round)? Debts are keyed by the raw pointer only.
            let p = w.payall_ptr.get(me).copied().unwrap_or(0);
            let weak_kind = CKind::WD as u8;
            let payer_weak = w
                .conts
                .iter()
                .find(|e| e.c.as_ref().map(|c| storage_addr_of(c) == arg).unwrap_or(false))
                .map(|e| e.kind == weak_kind)
                .or_else(|| w.inflight_storages.iter().find(|(a, _)| *a == arg).map(|(_, k)| *k == weak_kind))
                .or_else(|| w.dropping_kind.get(me).copied().flatten().map(|k| k == weak_kind));
            if let (Some(pw), true) = (payer_weak, p != 0) {
                let kinds: Vec<u8> = w.conts.iter().map(|e| e.kind).collect();
                let other = w
                    .guards
                    .iter()
                    .flatten()
                    .chain(w.tmp_guards.iter())
                    .chain(w.mail.iter().flat_map(|m| m.queue.iter()))
                    .any(|g| g.addr == p && (kinds.get(g.cont as usize).copied() == Some(weak_kind)) != pw);
                // ... or a container of the other kind stores a pointer to the same allocation
                // (its readers may be borrowing it right now)
                let other_cont = w
                    .conts
                    .iter()
                    .any(|e| (e.kind == weak_kind) != pw && e.c.as_ref().map(|c| peek_cont_ptr(c) == p).unwrap_or(false));
                // ... or the allocation has been referenced by a container of the other kind at all
                // (guards taken from it may be in flight inside an operation)
                let seen_other = w.addr_seen_in.get(&p).map(|(s, wk)| if pw { *s } else { *wk }).unwrap_or(false);
                if other || other_cont || seen_other {
                    crate::marks::mark(
                        "cross-kind-payment: a writer of a weak (strong) container paid a debt on an allocation that guards of strong (weak) pointers borrow; debts are keyed by the raw pointer only".to_string(),
                    );
                }
            }
        });
    } else if id == probes::FAST_CHANGED_PAID || id == probes::FB_HELPED_AND_PAID {
        // the reader found its (unconfirmed) debt in slot `arg` already paid; its storage follows
        w(|w| w.reader_paid_slot = (arg, id as u32));
    } else if id == probes::READER_STORAGE {
        w(|w| {
            let (slot, which) = w.reader_paid_slot;
            if let Some(payer_storage) = w.paid_by_storage.get(&slot).copied() {
                if payer_storage != arg {
                    if which as usize == probes::FAST_CHANGED_PAID {
                        crate::marks::mark(
                            "aba-paid-debt: the fast path's unconfirmed debt was paid by a writer of ANOTHER container (stale pointer whose address was reused); the load returns that other object".to_string(),
                        );
                    } else {
                        crate::marks::mark(
                            "aba-paid-debt: the fallback's unconfirmed debt was paid by a writer of ANOTHER container (stale pointer whose address was reused); the reader gives that count back with its own pointer type".to_string(),
                        );
                    }
                }
            }
        });
    } else if id == probes::COOLDOWN_STARTED {
        w(|w| {
            if w.payall_depth.get(me).copied().unwrap_or(0) > 0 {
                // the node is retired while this thread is inside a debt walk: generation wrap in
                // the helper's own nested load
                *w.extra_counts.entry("node_retired_inside_debt_walk".into()).or_insert(0) += 1;
            }
        });
        // Ownership itself is tracked from the writes to `in_use` (above); by now the node has
        // been released by that write.
        let prev = w(|w| w.node_owner.get(&arg).copied());
        if let Some(p) = prev {
            rt::fail(
                "node-monitor",
                format!("thread {} started the cooldown of a node that thread {} owns", me, p),
            );
        }
    }
}
