//! History oracles evaluated after an execution: linearizability of each container against a
//! one-cell register model (loads, stores, swaps, compare-and-swaps, rcu installations,
//! into_inner), with real-time precedence in `sc` mode and happens-before precedence in `weak`
//! mode.

use crate::arena;
use crate::world::{Call, CallKind, World};

#[derive(Clone, Debug)]
enum MOp {
    Read { ret: u32 },
    Write { arg: u32 },
    Swap { arg: u32, ret: u32 },
    Cas { exp_addr: usize, exp_uid: Option<u32>, arg: u32, ret: u32 },
}

struct HOp {
    op: MOp,
    call: usize,
    /// The call did not return (it unwound): it may or may not have taken effect, and what it
    /// would have returned is unknown.
    optional: bool,
}

fn addr_of(uid: u32) -> usize {
    if uid == 0 {
        0
    } else {
        arena::obj_info(uid).map(|o| o.addr).unwrap_or(usize::MAX)
    }
}

fn precedes(a: &Call, b: &Call, weak: bool) -> bool {
    if !a.completed {
        // an operation that unwound has no response event: only program order remains
        return a.tid == b.tid && a.th == b.th && a.inv < b.inv;
    }
    if a.tid == b.tid && a.th == b.th {
        return a.resp < b.inv;
    }
    if weak {
        // the response of `a` happens-before the invocation of `b`
        a.resp < b.inv && a.resp_clock.get(a.tid) <= b.inv_clock.get(a.tid)
    } else {
        a.resp < b.inv
    }
}

/// Wing–Gong style search with memoisation over (set of linearized calls, register value).
fn linearizable(ops: &[HOp], calls: &[Call], init: u32, weak: bool) -> bool {
    let n = ops.len();
    if n == 0 {
        return true;
    }
    assert!(n <= 63);
    let mut pred = vec![0u64; n];
    for i in 0..n {
        for j in 0..n {
            if i != j && precedes(&calls[ops[j].call], &calls[ops[i].call], weak) {
                pred[i] |= 1 << j;
            }
        }
    }
    let mut mandatory: u64 = 0;
    for (i, o) in ops.iter().enumerate() {
        if !o.optional {
            mandatory |= 1 << i;
        }
    }
    let mut seen: std::collections::HashSet<(u64, u32)> = std::collections::HashSet::new();
    let mut stack: Vec<(u64, u32)> = vec![(0, init)];
    while let Some((done, st)) = stack.pop() {
        if done & mandatory == mandatory {
            return true;
        }
        if !seen.insert((done, st)) {
            continue;
        }
        for i in 0..n {
            if done & (1 << i) != 0 || pred[i] & !done != 0 {
                continue;
            }
            let next = match &ops[i].op {
                MOp::Read { ret } => {
                    if *ret == st {
                        Some(st)
                    } else {
                        None
                    }
                }
                MOp::Write { arg } => Some(*arg),
                MOp::Swap { arg, .. } if ops[i].optional => Some(*arg),
                MOp::Cas { exp_addr, exp_uid, arg, .. } if ops[i].optional => {
                    if exp_uid.map(|u| u == st).unwrap_or_else(|| addr_of(st) == *exp_addr) {
                        Some(*arg)
                    } else {
                        Some(st)
                    }
                }
                MOp::Swap { arg, ret } => {
                    if *ret == st {
                        Some(*arg)
                    } else {
                        None
                    }
                }
                MOp::Cas { exp_addr, exp_uid, arg, ret } => {
                    if *ret != st {
                        None
                    } else if exp_uid.map(|u| u == st).unwrap_or_else(|| addr_of(st) == *exp_addr) {
                        Some(*arg)
                    } else {
                        Some(st)
                    }
                }
            };
            if let Some(ns) = next {
                stack.push((done | (1 << i), ns));
            }
            if ops[i].optional {
                // an operation that unwound may also have had no effect at all; it must then not
                // stand in the way of the operations that follow it in real time
                stack.push((done | (1 << i), st));
            }
        }
    }
    false
}

pub struct HistStats {
    pub containers_checked: u32,
    pub calls_checked: u32,
    pub skipped_long: u32,
    pub max_len: u32,
}

fn fmt_call(c: &Call) -> String {
    let k = match c.kind {
        CallKind::Load => "load",
        CallKind::LoadFull => "load_full",
        CallKind::Store => "store",
        CallKind::Swap => "swap",
        CallKind::Cas => "cas",
        CallKind::RcuSeen => "rcu-input",
        CallKind::Rcu => "rcu-install",
        CallKind::IntoInner => "into_inner",
        CallKind::DropCont => "drop",
        CallKind::CacheLoad => "cache-load",
        CallKind::AccessLoad => "access-load",
    };
    format!(
        "[t{} {}..{}] {}(arg={} exp@{:x})->{}",
        c.th,
        c.inv,
        c.resp,
        k,
        c.arg,
        c.exp_addr & 0xffff,
        c.ret
    )
}

/// Returns (oracle kind, message) of the first violated history, if any.
pub fn check_histories(w: &World, weak: bool, stats: &mut HistStats) -> Option<(String, String)> {
    for (ci, ce) in w.conts.iter().enumerate() {
        let calls: Vec<Call> = w
            .hist
            .iter()
            .filter(|c| c.c as usize == ci && (c.completed || matches!(c.kind, CallKind::Swap | CallKind::Cas | CallKind::Rcu)))
            .filter(|c| !matches!(c.kind, CallKind::DropCont))
            .cloned()
            .collect();
        if calls.is_empty() {
            continue;
        }
        // provenance: everything read must have been written into *this* container
        let mut written: Vec<u32> = vec![ce.init_uid];
        for c in calls.iter() {
            if matches!(c.kind, CallKind::Store | CallKind::Swap | CallKind::Cas | CallKind::Rcu) {
                written.push(c.arg);
            }
        }
        for c in calls.iter() {
            let reads = !matches!(c.kind, CallKind::Store) && c.completed;
            if reads && !written.contains(&c.ret) {
                let elsewhere = w.hist.iter().any(|o| o.c as usize != ci && o.arg == c.ret && o.arg != 0)
                    || w.conts.iter().enumerate().any(|(j, e)| j != ci && e.init_uid == c.ret && c.ret != 0);
                let kind = if elsewhere { "foreign-value" } else { "lin-load" };
                return Some((
                    kind.to_string(),
                    format!(
                        "container {}: {} returned uid={} which was never stored in this container{}",
                        ci,
                        fmt_call(c),
                        c.ret,
                        if elsewhere { " (it was stored in another container)" } else { "" }
                    ),
                ));
            }
        }
        if calls.len() > 40 {
            stats.skipped_long += 1;
            continue;
        }
        stats.containers_checked += 1;
        stats.calls_checked += calls.len() as u32;
        stats.max_len = stats.max_len.max(calls.len() as u32);
        let mk = |keep_reads: bool| -> Vec<HOp> {
            let mut v = Vec::new();
            for (i, c) in calls.iter().enumerate() {
                let op = match c.kind {
                    CallKind::Load
                    | CallKind::LoadFull
                    | CallKind::RcuSeen
                    | CallKind::IntoInner
                    | CallKind::CacheLoad
                    | CallKind::AccessLoad => {
                        if !keep_reads {
                            continue;
                        }
                        MOp::Read { ret: c.ret }
                    }
                    CallKind::Store => MOp::Write { arg: c.arg },
                    CallKind::Swap | CallKind::Rcu => MOp::Swap { arg: c.arg, ret: c.ret },
                    CallKind::Cas => MOp::Cas {
                        exp_addr: c.exp_addr,
                        exp_uid: c.exp_uid,
                        arg: c.arg,
                        ret: c.ret,
                    },
                    _ => continue,
                };
                v.push(HOp {
                    op,
                    call: i,
                    optional: !c.completed,
                });
            }
            v
        };
        let full = mk(true);
        if linearizable(&full, &calls, ce.init_uid, weak) {
            // into_inner must come last: nothing may be ordered after it
            continue;
        }
        let writes_only = mk(false);
        let kind = if linearizable(&writes_only, &calls, ce.init_uid, weak) {
            "lin-load"
        } else if calls.iter().any(|c| c.kind == CallKind::Rcu) {
            "lin-rcu"
        } else if calls.iter().any(|c| c.kind == CallKind::Cas) {
            "lin-cas"
        } else {
            "lin-write"
        };
        let mut sorted: Vec<&Call> = calls.iter().collect();
        sorted.sort_by_key(|c| c.inv);
        let hist: Vec<String> = sorted.iter().map(|c| fmt_call(c)).collect();
        return Some((
            kind.to_string(),
            format!(
                "container {} (initial uid={}): history is not linearizable ({} precedence): {}",
                ci,
                ce.init_uid,
                if weak { "happens-before" } else { "real-time" },
                hist.join(" ")
            ),
        ));
    }
    None
}
