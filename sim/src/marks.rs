//! Markers: facts about an execution that identify *why* it failed (used to tell a recorded
//! known finding from any other violation of the same property).
use std::cell::RefCell;

thread_local! {
    static MARKS: RefCell<Vec<String>> = const { RefCell::new(Vec::new()) };
}

pub fn reset() {
    MARKS.with(|m| m.borrow_mut().clear());
}

pub fn mark(s: String) {
    MARKS.with(|m| {
        let mut m = m.borrow_mut();
        if m.len() < 16 && !m.contains(&s) {
            m.push(s);
        }
    });
}

pub fn all() -> Vec<String> {
    MARKS.with(|m| m.borrow().clone())
}
