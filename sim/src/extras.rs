//! Cache (C16) and Access/Map (C17) operations. (Filled in after the core operations.)
use crate::interp::Ctx;
use crate::world::World;
use std::collections::BTreeMap;

pub struct CacheEntry;
pub struct AccEntry;

pub fn op_cache_new(_ctx: Ctx, _c: u8, _k: u8) {}
pub fn op_cache_load(_ctx: Ctx, _k: u8) {}
pub fn op_cache_clone(_ctx: Ctx, _k: u8, _k2: u8) {}
pub fn op_cache_drop(_ctx: Ctx, _k: u8) {}
pub fn op_acc_load(_ctx: Ctx, _c: u8, _depth: u8, _dynamic: bool, _a: u8) {}
pub fn op_acc_check(_ctx: Ctx, _a: u8) {}
pub fn op_acc_drop(_ctx: Ctx, _a: u8) {}
pub fn final_drop_extras(_ctx: Ctx) {}
pub fn extra_owner_of(_w: &World, _uid: u32) -> Option<String> {
    None
}
pub fn extra_owners(_w: &World, _own: &mut BTreeMap<usize, (u32, u32, u32)>) {}

pub fn post_checks(_w: &World, _weak: bool) -> Option<(String, String)> {
    None
}
pub fn gen_c16(rng: &mut verif_rt::core::Rng, cfg: crate::scen::RunCfg, _thorough: bool) -> crate::scen::Case {
    let p = crate::program::GenParams::default();
    crate::scen::Case { cfg, prog: crate::program::gen_program(rng, &p) }
}
pub fn gen_c17(rng: &mut verif_rt::core::Rng, cfg: crate::scen::RunCfg, _thorough: bool) -> crate::scen::Case {
    let p = crate::program::GenParams::default();
    crate::scen::Case { cfg, prog: crate::program::gen_program(rng, &p) }
}
