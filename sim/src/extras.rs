//! Cache (C16) and Access/Map (C17) operations, their bookkeeping for the ledger, their
//! scenario generators and their post-run checks.

#![allow(deprecated)]

use crate::arena::{self, Inner, Payload};
use crate::interp::{self, guarded, rec_begin, rec_end, Ctx, OP_ACCESS_LOAD, OP_CACHE_LOAD, OP_HANDLE};
use crate::program::*;
use crate::scen::{Case, RunCfg};
use crate::world::*;
use arc_swap::access::{Access, AccessConvert, Constant, DynAccess, Map};
use arc_swap::cache::{Access as CacheAccess, Cache, MapCache};
use arc_swap::strategy::Strategy;
use arc_swap::{ArcSwapAny, RefCnt};
use std::collections::BTreeMap;
use std::ops::Deref;
use std::rc::Rc;
use verif_rt::core::{self as rt, Rng};

static ZERO_PAYLOAD: Payload = Payload {
    val: 0,
    inner: Inner { val: 0 },
};

/// Projections on the stored pointer types.
pub trait Proj: PtrT {
    fn payload_ref(&self) -> &Payload;
    /// A plain cache that is used through the `cache::Access` trait, where the pointer kind
    /// supports it (it must deref to the crate's `Base`).
    fn trait_cache<S: Strategy<Self> + 'static>(c: Cache<ContRef<Self, S>, Self>) -> Result<Box<dyn CacheLike>, Cache<ContRef<Self, S>, Self>>
    where
        Self: Sized,
    {
        Err(c)
    }
}
impl Proj for SA {
    fn payload_ref(&self) -> &Payload {
        self.payload()
    }
    fn trait_cache<S: Strategy<Self> + 'static>(c: Cache<ContRef<Self, S>, Self>) -> Result<Box<dyn CacheLike>, Cache<ContRef<Self, S>, Self>> {
        Ok(Box::new(TraitCache::<arena::KA, S>(c)))
    }
}
impl Proj for SB {
    fn payload_ref(&self) -> &Payload {
        self.payload()
    }
    fn trait_cache<S: Strategy<Self> + 'static>(c: Cache<ContRef<Self, S>, Self>) -> Result<Box<dyn CacheLike>, Cache<ContRef<Self, S>, Self>> {
        Ok(Box::new(TraitCache::<arena::KB, S>(c)))
    }
}
impl Proj for WA {
    fn payload_ref(&self) -> &Payload {
        // a weak pointer cannot be dereferenced without upgrading; projections see nothing
        &ZERO_PAYLOAD
    }
}
impl Proj for Option<SA> {
    fn payload_ref(&self) -> &Payload {
        match self {
            Some(x) => x.payload(),
            None => &ZERO_PAYLOAD,
        }
    }
}

/// User code inside the library: every projection may be made to panic (fault kind user-panic).
fn proj_tick() {
    let me = rt::current();
    let fire = w(|w| {
        if let Some(k) = w.proj_panic.get_mut(me) {
            if *k > 0 {
                *k -= 1;
                return *k == 0;
            }
        }
        false
    });
    if fire {
        std::panic::resume_unwind(Box::new(arena::UserPanic("projection")));
    }
}

pub fn op_arm_proj_panic(k: u8) {
    let me = rt::current();
    w(|w| {
        if w.proj_panic.len() <= me {
            w.proj_panic.resize(me + 1, 0);
        }
        w.proj_panic[me] = k.max(1) as u32;
        w.armed += 1;
    });
}

fn p_val<T: Proj>(t: &T) -> &u64 {
    proj_tick();
    &t.payload_ref().val
}
fn p_payload<T: Proj>(t: &T) -> &Payload {
    proj_tick();
    t.payload_ref()
}
fn p_inner(p: &Payload) -> &Inner {
    proj_tick();
    &p.inner
}
fn p_inner_val(i: &Inner) -> &u64 {
    proj_tick();
    &i.val
}
fn p_payload_val(p: &Payload) -> &u64 {
    proj_tick();
    &p.val
}
/// Identity projection: the result points at the pointer held *inside* the guard object.
fn p_self<T: Proj>(t: &T) -> &T {
    proj_tick();
    t
}
fn p_ident(x: &u64) -> &u64 {
    x
}

/// A shared handle to a container that derefs to the concrete `ArcSwapAny` (what an
/// `Arc<ArcSwap<..>>` is in a real program).
pub struct ContRef<T: RefCnt, S: Strategy<T>> {
    rc: Rc<Cont>,
    p: *const ArcSwapAny<T, S>,
}
impl<T: RefCnt, S: Strategy<T>> Clone for ContRef<T, S> {
    fn clone(&self) -> Self {
        ContRef {
            rc: self.rc.clone(),
            p: self.p,
        }
    }
}
impl<T: RefCnt, S: Strategy<T>> Deref for ContRef<T, S> {
    type Target = ArcSwapAny<T, S>;
    fn deref(&self) -> &ArcSwapAny<T, S> {
        let _ = &self.rc;
        unsafe { &*self.p }
    }
}

fn cont_ref<T: RefCnt, S: Strategy<T>>(rc: &Rc<Cont>, c: &ArcSwapAny<T, S>) -> ContRef<T, S> {
    ContRef {
        rc: rc.clone(),
        p: c as *const _,
    }
}

// ---------------------------------------------------------------------------------------------
// Cache
// ---------------------------------------------------------------------------------------------

pub trait CacheLike {
    /// Performs `load` on the cache and identifies what it returned: (uid, addr).
    fn load_id(&mut self) -> (u32, usize);
    fn clone_box(&self) -> Box<dyn CacheLike>;
}

struct PlainCache<T: Proj, S: Strategy<T> + 'static>(Cache<ContRef<T, S>, T>);
impl<T: Proj, S: Strategy<T> + 'static> CacheLike for PlainCache<T, S> {
    fn load_id(&mut self) -> (u32, usize) {
        let v = self.0.load();
        (v.uid_touch(), v.addr())
    }
    fn clone_box(&self) -> Box<dyn CacheLike> {
        Box::new(PlainCache(self.0.clone()))
    }
}

/// A plain cache used through the `cache::Access` trait (what generic code does).
struct TraitCache<K: arena::Kind, S: Strategy<arena::SimArc<K>> + 'static>(Cache<ContRef<arena::SimArc<K>, S>, arena::SimArc<K>>)
where
    arena::SimArc<K>: Proj;
impl<K: arena::Kind, S: Strategy<arena::SimArc<K>> + 'static> CacheLike for TraitCache<K, S>
where
    arena::SimArc<K>: Proj,
{
    fn load_id(&mut self) -> (u32, usize) {
        let s: &arena::Slot = CacheAccess::load(&mut self.0);
        (s.uid.get(), s as *const arena::Slot as usize)
    }
    fn clone_box(&self) -> Box<dyn CacheLike> {
        Box::new(TraitCache(self.0.clone()))
    }
}

struct MappedCache<T: Proj, S: Strategy<T> + 'static>(MapCache<ContRef<T, S>, T, fn(&T) -> &u64>);
impl<T: Proj, S: Strategy<T> + 'static> CacheLike for MappedCache<T, S> {
    fn load_id(&mut self) -> (u32, usize) {
        let v: u64 = *CacheAccess::load(&mut self.0);
        if v == 0 {
            return (0, 0);
        }
        let uid = arena::uid_by_val(v);
        let addr = arena::obj_info(uid).map(|o| o.addr).unwrap_or(0);
        (uid, addr)
    }
    fn clone_box(&self) -> Box<dyn CacheLike> {
        Box::new(MappedCache(self.0.clone()))
    }
}

pub struct CacheEntry {
    pub c: Box<dyn CacheLike>,
    pub cont: u8,
    pub last_uid: u32,
    pub last_addr: usize,
}

fn kslot(ctx: Ctx, k: u8) -> usize {
    ctx.th * 4 + (k as usize % 4)
}

fn bump(w: &mut World, k: &str) {
    *w.extra_counts.entry(k.to_string()).or_insert(0) += 1;
}

pub fn op_cache_new(ctx: Ctx, c: u8, k: u8) {
    let Some(cont) = interp::get_cont(c) else { return };
    op_cache_drop(ctx, k);
    let mapped = k % 2 == 1;
    let via_trait = k % 4 == 2;
    rt::op_begin(OP_CACHE_LOAD);
    let r = rec_begin();
    fn mk<T: Proj, S: Strategy<T> + 'static>(rc: &Rc<Cont>, cv: &ArcSwapAny<T, S>, mapped: bool, via_trait: bool) -> Box<dyn CacheLike> {
        let cache = Cache::new(cont_ref(rc, cv));
        if mapped {
            Box::new(MappedCache(cache.map(p_val::<T> as fn(&T) -> &u64)))
        } else if via_trait {
            match T::trait_cache(cache) {
                Ok(b) => b,
                Err(cache) => Box::new(PlainCache(cache)),
            }
        } else {
            Box::new(PlainCache(cache))
        }
    }
    // Cache::new performs a load_full; what it cached becomes visible with the first load.
    let made = guarded("Cache::new", || crate::with_cont!(&*cont, cv, _wr => mk(&cont, cv, mapped, via_trait)));
    if let Some(mut cb) = made {
        let got = guarded("Cache::load", || cb.load_id());
        if let Some((uid, addr)) = got {
            rec_end(ctx, r, c, CallKind::CacheLoad, (0, 0), 0, (uid, addr), true);
            w(|w| {
                w.caches[kslot(ctx, k)] = Some(CacheEntry {
                    c: cb,
                    cont: c,
                    last_uid: uid,
                    last_addr: addr,
                });
                bump(w, "cache_new");
            });
        } else {
            // its first load panicked (armed projection): the cache is given up
            let _ = guarded("drop(Cache)", move || drop(cb));
        }
    }
    rt::op_end();
}

pub fn op_cache_load(ctx: Ctx, k: u8) {
    let e = w(|w| w.caches[kslot(ctx, k)].take());
    let Some(mut e) = e else { return };
    // the cache keeps owning its value while it is out of the table
    w(|w| w.inflight_cache_uids.push(e.last_uid));
    rt::op_begin(OP_CACHE_LOAD);
    let r = rec_begin();
    let mut got = guarded("Cache::load", || e.c.load_id());
    if got.is_none() && !rt::is_aborting() {
        // User code panicked inside the load (the projection of a mapped cache, or the destructor
        // of the value the cache let go), possibly after the cache had already revalidated: ask
        // again, with projection panics disarmed, to learn what it holds now.
        let me = rt::current();
        w(|w| {
            if let Some(k) = w.proj_panic.get_mut(me) {
                *k = 0;
            }
        });
        got = guarded("Cache::load (after a panic in user code)", || e.c.load_id());
        if got.is_none() && !rt::is_aborting() {
            // a second destructor panicked; once more, then the cache is given up
            got = guarded("Cache::load (after a panic in user code)", || e.c.load_id());
        }
    }
    w(|w| {
        let u = e.last_uid;
        if let Some(p) = w.inflight_cache_uids.iter().position(|x| *x == u) {
            w.inflight_cache_uids.remove(p);
        }
    });
    if let Some((uid, addr)) = got {
        rec_end(ctx, r, e.cont, CallKind::CacheLoad, (0, 0), 0, (uid, addr), true);
        w(|w| {
            bump(w, "cache_loads");
            if uid != e.last_uid {
                bump(w, "cache_reloads");
            }
        });
        e.last_uid = uid;
        e.last_addr = addr;
        w(|w| w.caches[kslot(ctx, k)] = Some(e));
    } else {
        // what it holds is unknown to the harness: it is dropped here, inside this operation
        let _ = guarded("drop(Cache)", move || drop(e));
    }
    rt::op_end();
}

pub fn op_cache_clone(ctx: Ctx, k: u8, k2: u8) {
    if kslot(ctx, k) == kslot(ctx, k2) {
        return;
    }
    op_cache_drop(ctx, k2);
    let e = w(|w| w.caches[kslot(ctx, k)].take());
    let Some(e) = e else { return };
    w(|w| w.inflight_cache_uids.push(e.last_uid));
    rt::op_begin(OP_HANDLE);
    let c2 = guarded("Cache::clone", || e.c.clone_box());
    w(|w| {
        let u = e.last_uid;
        if let Some(p) = w.inflight_cache_uids.iter().position(|x| *x == u) {
            w.inflight_cache_uids.remove(p);
        }
        if let Some(c2) = c2 {
            w.caches[kslot(ctx, k2)] = Some(CacheEntry {
                c: c2,
                cont: e.cont,
                last_uid: e.last_uid,
                last_addr: e.last_addr,
            });
            bump(w, "cache_clones");
        }
        w.caches[kslot(ctx, k)] = Some(e);
    });
    rt::op_end();
}

pub fn op_cache_drop(ctx: Ctx, k: u8) {
    let e = w(|w| w.caches[kslot(ctx, k)].take());
    if let Some(e) = e {
        rt::op_begin(OP_HANDLE);
        let _ = guarded("drop(Cache)", move || drop(e));
        rt::op_end();
    }
}

// ---------------------------------------------------------------------------------------------
// Access / Map
// ---------------------------------------------------------------------------------------------

pub struct AccEntry {
    pub g: Box<dyn Deref<Target = u64>>,
    pub val: u64,
    pub uid: u32,
    pub addr: usize,
    pub cont: u8,
    pub writes_at_load: u64,
}

fn aslot(ctx: Ctx, a: u8) -> usize {
    ctx.th * 4 + (a as usize % 4)
}

fn total_writes(w: &World) -> u64 {
    w.writes_done.iter().sum()
}

fn acc_load_static<T: Proj, S: Strategy<T> + 'static>(rc: &Rc<Cont>, cv: &ArcSwapAny<T, S>, depth: u8) -> Box<dyn Deref<Target = u64>> {
    let cr = cont_ref(rc, cv);
    if depth >= 3 && depth % 2 == 1 {
        // a projection to the pointer stored inline in the guard, then on into the pointee
        let m1 = Map::new(cr, p_self::<T> as fn(&T) -> &T);
        let m2 = Map::new(m1, p_val::<T> as fn(&T) -> &u64);
        return Box::new(Access::load(&m2));
    }
    match depth % 3 {
        0 => {
            let m = Map::new(cr, p_val::<T> as fn(&T) -> &u64);
            Box::new(Access::load(&m))
        }
        1 => {
            let m1 = Map::new(cr, p_payload::<T> as fn(&T) -> &Payload);
            let m2 = Map::new(m1, p_payload_val as fn(&Payload) -> &u64);
            Box::new(Access::load(&m2))
        }
        _ => {
            let m1 = Map::new(cr, p_payload::<T> as fn(&T) -> &Payload);
            let m2 = Map::new(m1, p_inner as fn(&Payload) -> &Inner);
            let m3 = Map::new(m2, p_inner_val as fn(&Inner) -> &u64);
            Box::new(Access::load(&m3))
        }
    }
}

fn acc_load_dyn<T: Proj, S: Strategy<T> + 'static>(rc: &Rc<Cont>, cv: &ArcSwapAny<T, S>, depth: u8) -> Box<dyn Deref<Target = u64>> {
    let cr = cont_ref(rc, cv);
    let boxed: Box<dyn DynAccess<u64>> = match depth % 3 {
        0 => Box::new(Map::new(cr, p_val::<T> as fn(&T) -> &u64)),
        1 => {
            let m1 = Map::new(cr, p_payload::<T> as fn(&T) -> &Payload);
            Box::new(Map::new(m1, p_payload_val as fn(&Payload) -> &u64))
        }
        _ => {
            let m1 = Map::new(cr, p_payload::<T> as fn(&T) -> &Payload);
            let m2 = Map::new(m1, p_inner as fn(&Payload) -> &Inner);
            Box::new(Map::new(m2, p_inner_val as fn(&Inner) -> &u64))
        }
    };
    if depth % 2 == 0 {
        // through AccessConvert back into a static Access
        let conv = AccessConvert(boxed);
        Box::new(Access::load(&conv))
    } else {
        Box::new(DynAccess::load(&*boxed))
    }
}

pub fn op_acc_load(ctx: Ctx, c: u8, depth: u8, dynamic: bool, a: u8) {
    let Some(cont) = interp::get_cont(c) else { return };
    op_acc_drop(ctx, a);
    rt::op_begin(OP_ACCESS_LOAD);
    let r = rec_begin();
    let res = guarded("Access::load", || {
        crate::with_cont!(&*cont, cv, _wr => {
            if dynamic { acc_load_dyn(&cont, cv, depth) } else { acc_load_static(&cont, cv, depth) }
        })
    });
    if let Some(g) = res {
        // dereferencing runs the projections: user code that may panic
        let Some(val) = guarded("deref(projection guard)", || **g) else {
            let _ = guarded("drop(projection guard)", move || drop(g));
            rt::op_end();
            return;
        };
        let uid = if val == 0 { 0 } else { arena::uid_by_val(val) };
        let addr = arena::obj_info(uid).map(|o| o.addr).unwrap_or(0);
        rec_end(ctx, r, c, CallKind::AccessLoad, (0, 0), 0, (uid, addr), true);
        w(|w| {
            let wr = total_writes(w);
            w.accs[aslot(ctx, a)] = Some(AccEntry {
                g,
                val,
                uid,
                addr,
                cont: c,
                writes_at_load: wr,
            });
            bump(w, "acc_loads");
            if dynamic {
                bump(w, "acc_loads_dynamic");
            }
        });
    }
    rt::op_end();
}

pub fn op_acc_check(ctx: Ctx, a: u8) {
    let e = w(|w| w.accs[aslot(ctx, a)].take());
    let Some(e) = e else { return };
    w(|w| w.inflight_acc.push((e.uid, e.addr)));
    let now = guarded("deref(projection guard)", || **e.g);
    w(|w| {
        let key = (e.uid, e.addr);
        if let Some(p) = w.inflight_acc.iter().position(|x| *x == key) {
            w.inflight_acc.remove(p);
        }
    });
    let Some(now) = now else {
        // the projection panicked: the guard itself is intact, it is simply dropped
        rt::op_begin(interp::OP_GUARD_DROP);
        let _ = guarded("drop(projection guard)", move || drop(e));
        rt::op_end();
        return;
    };
    w(|w| {
        bump(w, "acc_checks");
        if total_writes(w) > e.writes_at_load {
            bump(w, "acc_guard_outlived_store");
        }
    });
    if now != e.val && !rt::is_aborting() {
        rt::fail(
            "access",
            format!(
                "projection guard loaded value {} (uid={}) but now dereferences to {}",
                e.val, e.uid, now
            ),
        );
        std::mem::forget(e);
        return;
    }
    w(|w| w.accs[aslot(ctx, a)] = Some(e));
}

pub fn op_acc_drop(ctx: Ctx, a: u8) {
    let e = w(|w| w.accs[aslot(ctx, a)].take());
    if let Some(e) = e {
        // (a panicking projection says nothing about the guard; it is then simply dropped)
        let now = guarded("deref(projection guard)", || **e.g).unwrap_or(e.val);
        if now != e.val && !rt::is_aborting() {
            rt::fail(
                "access",
                format!(
                    "projection guard loaded value {} (uid={}) but dereferences to {} before its drop",
                    e.val, e.uid, now
                ),
            );
            std::mem::forget(e);
            return;
        }
        w(|w| {
            if total_writes(w) > e.writes_at_load {
                bump(w, "acc_guard_outlived_store");
            }
        });
        rt::op_begin(interp::OP_GUARD_DROP);
        let _ = guarded("drop(projection guard)", move || drop(e));
        rt::op_end();
    }
}

// ---------------------------------------------------------------------------------------------
// Real std::sync::Arc: the Arc-only parts of the API
// ---------------------------------------------------------------------------------------------

/// Payload for the std-Arc exercise: counts its destructions.
struct StdPayload(u64, Rc<std::cell::Cell<u32>>);
impl Drop for StdPayload {
    fn drop(&mut self) {
        self.1.set(self.1.get() + 1);
    }
}
impl std::fmt::Debug for StdPayload {
    fn fmt(&self, f: &mut std::fmt::Formatter) -> std::fmt::Result {
        write!(f, "P{}", self.0)
    }
}
impl std::fmt::Display for StdPayload {
    fn fmt(&self, f: &mut std::fmt::Formatter) -> std::fmt::Result {
        write!(f, "p{}", self.0)
    }
}

pub fn op_std_arc(_ctx: Ctx, variant: u8) {
    use arc_swap::{ArcSwap, ArcSwapOption};
    use std::sync::Arc;
    rt::op_begin(OP_HANDLE);
    let out = guarded("std-Arc API exercise", || -> Result<(), String> {
        let drops = Rc::new(std::cell::Cell::new(0u32));
        let a: ArcSwap<StdPayload> = ArcSwap::from_pointee(StdPayload(7, drops.clone()));
        let v0 = a.load_full();
        let cnt = |what: &str, want: usize| -> Result<(), String> {
            let got = Arc::strong_count(&v0);
            if got != want {
                return Err(format!("{}: strong count of the value is {} but {} owners exist", what, got, want));
            }
            Ok(())
        };
        cnt("after from_pointee + load_full", 2)?;
        let s = format!("{:?}|{}", a, a);
        if !s.contains("P7") || !s.contains("p7") {
            return Err(format!("Debug/Display of the container print {:?}", s));
        }
        cnt("after formatting the container", 2)?;
        {
            let g = a.load();
            let s = format!("{:?}|{}", g, g);
            if !s.contains("P7") || !s.contains("p7") {
                return Err(format!("Debug/Display of a guard print {:?}", s));
            }
        }
        cnt("after formatting a guard", 2)?;
        let o: ArcSwapOption<StdPayload> = if variant % 2 == 0 { ArcSwapOption::empty() } else { Default::default() };
        if o.load().is_some() {
            return Err("an empty ArcSwapOption loads Some".into());
        }
        let so = format!("{:?}", o);
        if !so.contains("None") {
            return Err(format!("Debug of an empty ArcSwapOption prints {:?}", so));
        }
        o.store(Some(v0.clone()));
        cnt("after storing a clone into an ArcSwapOption", 3)?;
        {
            let m = a.map(|p: &StdPayload| &p.0);
            let g = Access::load(&m);
            if *g != 7 {
                return Err(format!("ArcSwapAny::map projects {}", *g));
            }
            if variant % 3 == 0 {
                a.store(Arc::new(StdPayload(8, drops.clone())));
                if *g != 7 {
                    return Err(format!("a projection guard changed to {} after a store", *g));
                }
                cnt("projection guard alive, value replaced in one container", 3)?;
            }
        }
        let in_a = if variant % 3 == 0 { 0 } else { 1 };
        cnt("after the projection guard is gone", 2 + in_a)?;
        {
            let mut c = Cache::from(&a);
            let _ = c.arc_swap();
            let l = c.load();
            let want = if variant % 3 == 0 { 8 } else { 7 };
            if l.0 != want {
                return Err(format!("Cache::from(..).load() gives {} instead of {}", l.0, want));
            }
            cnt("while a cache holds the current value", 2 + 2 * in_a)?;
        }
        cnt("after the cache is gone", 2 + in_a)?;
        let f: ArcSwap<StdPayload> = ArcSwap::from(v0.clone());
        cnt("after From<Arc>", 3 + in_a)?;
        let back = f.into_inner();
        if !Arc::ptr_eq(&back, &v0) {
            return Err("into_inner returns another value than the one the container was built from".into());
        }
        drop(back);
        drop(o);
        drop(a);
        cnt("after every container is gone", 1)?;
        let d0 = drops.get();
        drop(v0);
        if drops.get() != d0 + 1 {
            return Err("the value was not destroyed when its last owner went".into());
        }
        Ok(())
    });
    rt::op_end();
    if let Some(Err(msg)) = out {
        if !rt::is_aborting() {
            rt::fail("std-arc", msg);
        }
    }
}

#[inline(never)]
fn load_in_dead_frame<A: Access<u64>>(a: &A) -> Box<A::Guard> {
    let pad = [1u64; 8];
    let g = a.load();
    std::hint::black_box(&pad);
    Box::new(g)
}

#[inline(never)]
fn dyn_load_in_dead_frame(a: &dyn DynAccess<u64>) -> arc_swap::access::DynGuard<u64> {
    let pad = [2u64; 8];
    let g = a.load();
    std::hint::black_box(&pad);
    g
}

/// Overwrites the part of the stack that the callees of the current frame have just used.
#[inline(never)]
fn clobber_stack() -> u64 {
    let mut a = [0u64; 384];
    for (i, x) in a.iter_mut().enumerate() {
        *x = 0xDEAD_0000_0000_0000 | i as u64;
    }
    std::hint::black_box(&mut a);
    a[17]
}

/// Final phase (single-threaded): drop caches and projection guards, and compare static with
/// dynamic dispatch and check `Constant`.
pub fn final_drop_extras(ctx: Ctx) {
    // static vs dynamic dispatch on every live container, every depth: identical results
    let n = w(|w| w.conts.len());
    let wanted = w(|w| w.extra_counts.contains_key("acc_loads") || w.prog_wants_access);
    if wanted {
        for c in 0..n {
            let Some(cont) = interp::get_cont(c as u8) else { continue };
            for depth in 0..3u8 {
                rt::op_begin(OP_ACCESS_LOAD);
                let a = guarded("Access::load", || crate::with_cont!(&*cont, cv, _wr => acc_load_static(&cont, cv, depth)));
                let b = guarded("Access::load(dyn)", || crate::with_cont!(&*cont, cv, _wr => acc_load_dyn(&cont, cv, depth)));
                let b2 = guarded("Access::load(dyn)", || crate::with_cont!(&*cont, cv, _wr => acc_load_dyn(&cont, cv, depth + 3)));
                if let (Some(a), Some(b), Some(b2)) = (a, b, b2) {
                    let (x, y, z) = (**a, **b, **b2);
                    w(|w| bump(w, "acc_static_dynamic_compared"));
                    if x != y || x != z {
                        rt::fail(
                            "access",
                            format!("static dispatch projects {} but dynamic dispatch {} / {} (depth {})", x, y, z, depth),
                        );
                    }
                    drop(a);
                    drop(b);
                    drop(b2);
                }
                rt::op_end();
                if rt::is_aborting() {
                    return;
                }
            }
        }
        let k = Constant(42u64);
        let s = *Access::load(&k);
        let d = *DynAccess::load(&k);
        // a Map over a Constant: the projected reference points into the guard object itself
        let mk = Map::new(Constant(4242u64), p_ident as fn(&u64) -> &u64);
        let g1 = Access::load(&mk);
        let moved = Box::new(g1);
        let filler = [7u64; 16];
        let m = **moved;
        let md = *DynAccess::load(&mk);
        std::hint::black_box(&filler);
        if s != 42 || d != 42 || m != 4242 || md != 4242 {
            rt::fail("access", format!("Constant(42) loads {} / {}; Map over Constant(4242) loads {} / {}", s, d, m, md));
            return;
        }
        // "valid anywhere": the guard is loaded in a frame that is gone by the time it is used,
        // moved to the heap, and the dead frames are overwritten before the projection is read
        // (a projection guard that remembers an address inside its former self reads the filler)
        let mk2 = Map::new(Map::new(Constant(777_001u64), p_ident as fn(&u64) -> &u64), p_ident as fn(&u64) -> &u64);
        let b1 = load_in_dead_frame(&mk);
        let b2 = load_in_dead_frame(&mk2);
        let b3 = dyn_load_in_dead_frame(&mk);
        let b4 = dyn_load_in_dead_frame(&mk2);
        let fill = clobber_stack();
        let (v1, v2, v3, v4) = (**b1, **b2, *b3, *b4);
        w(|w| bump(w, "acc_guard_read_after_frame_death"));
        if v1 != 4242 || v2 != 777_001 || v3 != 4242 || v4 != 777_001 || fill == 0 {
            rt::fail(
                "access",
                format!(
                    "projection guards moved out of the frame that loaded them read {:#x} / {:#x} (static), {:#x} / {:#x} (dyn) instead of 4242 / 777001",
                    v1, v2, v3, v4
                ),
            );
            return;
        }
    }
    for i in 0..w(|w| w.accs.len()) {
        let th = i / 4;
        op_acc_drop(Ctx { th }, (i % 4) as u8);
        if rt::is_aborting() {
            return;
        }
    }
    for i in 0..w(|w| w.caches.len()) {
        let th = i / 4;
        op_cache_drop(Ctx { th }, (i % 4) as u8);
        if rt::is_aborting() {
            return;
        }
    }
    let _ = ctx;
}

pub fn extra_owner_of(w: &World, uid: u32) -> Option<String> {
    for c in w.caches.iter().flatten() {
        if c.last_uid == uid && uid != 0 {
            return Some("a cache still holds it".to_string());
        }
    }
    // (a cache that is inside `load` may legitimately release its previous value)
    for a in w.accs.iter().flatten() {
        if a.uid == uid && uid != 0 {
            return Some("a projection guard still denotes it".to_string());
        }
    }
    if w.inflight_acc.iter().any(|(u, _)| *u == uid && uid != 0) {
        return Some("a projection guard still denotes it".to_string());
    }
    None
}

pub fn extra_owners(w: &World, own: &mut BTreeMap<usize, (u32, u32, u32)>, null_guards: &mut u32) {
    for c in w.caches.iter().flatten() {
        if c.last_addr != 0 {
            own.entry(c.last_addr).or_default().1 += 1;
        }
    }
    for a in w.accs.iter().flatten() {
        if a.addr != 0 {
            own.entry(a.addr).or_default().2 += 1;
        } else {
            *null_guards += 1;
        }
    }
}

pub fn post_checks(_w: &World, _weak: bool) -> Option<(String, String)> {
    None
}

// ---------------------------------------------------------------------------------------------
// Scenario generators
// ---------------------------------------------------------------------------------------------

fn choose<T: Copy>(rng: &mut Rng, xs: &[T]) -> T {
    xs[rng.below(xs.len() as u64) as usize]
}

fn gen_writer_op(rng: &mut Rng, c: u8) -> Op {
    match rng.below(6) {
        0 | 1 => Op::Store { c, v: V::New },
        2 => Op::Store {
            c,
            v: V::H(rng.below(2) as u8),
        },
        3 => Op::Swap {
            c,
            v: V::New,
            h: rng.below(2) as u8,
        },
        4 => Op::Store { c, v: V::Null },
        _ => Op::Rcu {
            c,
            r: RcuSpec::default(),
            h: 2,
        },
    }
}

/// C16: 1-3 caches (plain, cloned, mapped) per reader thread, loaded while writers store
/// (fresh values, the same value again, A-B-A through a kept handle, None).
pub fn gen_c16(rng: &mut Rng, mut cfg: RunCfg, thorough: bool) -> Case {
    let kind = choose(rng, &crate::scen::ALL_A);
    let n_conts = 1 + rng.below(2) as usize;
    let conts: Vec<ContSpec> = (0..n_conts)
        .map(|_| ContSpec {
            kind: if rng.below(3) == 0 { choose(rng, &crate::scen::ALL_A) } else { kind },
            init: Init::New,
        })
        .collect();
    let n_readers = 1 + rng.below(if thorough { 3 } else { 2 }) as usize;
    let n_writers = 1 + rng.below(2) as usize;
    let mut threads = vec![ThreadProg::default()];
    for _ in 0..n_readers {
        let mut ops = Vec::new();
        let nk = 1 + rng.below(3) as u8;
        for k in 0..nk {
            ops.push(Op::CacheNew {
                c: rng.below(n_conts as u64) as u8,
                k,
            });
        }
        let n = 2 + rng.below(if thorough { 7 } else { 5 });
        for _ in 0..n {
            match rng.below(10) {
                0 => ops.push(Op::CacheClone {
                    k: rng.below(nk as u64) as u8,
                    k2: rng.below(4) as u8,
                }),
                1 => ops.push(Op::CacheDrop { k: rng.below(4) as u8 }),
                2 => {
                    let c = rng.below(n_conts as u64) as u8;
                    ops.push(gen_writer_op(rng, c))
                }
                3 => ops.push(Op::RecvDrop),
                _ => ops.push(Op::CacheLoad { k: rng.below(4) as u8 }),
            }
        }
        threads.push(ThreadProg { ops, top: true });
    }
    for _ in 0..n_writers {
        let mut ops = Vec::new();
        let n = 1 + rng.below(if thorough { 6 } else { 4 });
        for _ in 0..n {
            let c = rng.below(n_conts as u64) as u8;
            ops.push(gen_writer_op(rng, c));
        }
        threads.push(ThreadProg { ops, top: true });
    }
    cfg.p_reuse = choose(rng, &[0, 128, 230]);
    Case {
        cfg,
        prog: Program {
            conts,
            threads,
            final_order: rng.below(16) as u8,
        },
    }
}

/// C17: projection guards of depth 1-3, static and dynamic, held across stores.
pub fn gen_c17(rng: &mut Rng, cfg: RunCfg, thorough: bool) -> Case {
    let n_conts = 1 + rng.below(2) as usize;
    let conts: Vec<ContSpec> = (0..n_conts)
        .map(|_| ContSpec {
            kind: choose(rng, &crate::scen::ALL_A),
            init: Init::New,
        })
        .collect();
    let n_readers = 1 + rng.below(if thorough { 3 } else { 2 }) as usize;
    let n_writers = 1 + rng.below(2) as usize;
    let mut threads = vec![ThreadProg::default()];
    for _ in 0..n_readers {
        let mut ops = Vec::new();
        let n = 2 + rng.below(if thorough { 8 } else { 6 });
        for _ in 0..n {
            let c = rng.below(n_conts as u64) as u8;
            match rng.below(10) {
                0 | 1 | 2 | 3 => ops.push(Op::AccLoad {
                    c,
                    depth: rng.below(6) as u8,
                    dynamic: rng.below(2) == 0,
                    a: rng.below(4) as u8,
                }),
                4 | 5 | 6 => ops.push(Op::AccCheck { a: rng.below(4) as u8 }),
                7 => ops.push(Op::AccDrop { a: rng.below(4) as u8 }),
                8 => ops.push(gen_writer_op(rng, c)),
                _ => ops.push(Op::Load {
                    c,
                    g: rng.below(4) as u8,
                }),
            }
        }
        threads.push(ThreadProg { ops, top: true });
    }
    for _ in 0..n_writers {
        let mut ops = Vec::new();
        let n = 1 + rng.below(if thorough { 6 } else { 4 });
        for _ in 0..n {
            let c = rng.below(n_conts as u64) as u8;
            ops.push(gen_writer_op(rng, c));
        }
        threads.push(ThreadProg { ops, top: true });
    }
    Case {
        cfg,
        prog: Program {
            conts,
            threads,
            final_order: rng.below(16) as u8,
        },
    }
}
