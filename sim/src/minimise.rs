//! Minimisation of a failing (program, decision list) pair. A candidate is kept only if it
//! still fails with the same oracle class. Replays are lenient (missing/out-of-range picks
//! become the benign default 0) and every accepted candidate is stored with the decision list
//! that was *re-recorded* while it ran, so the final file replays exactly.

use crate::program::{Op, Program};
use crate::scen::Case;
use crate::{encode_picks, execute, stale_sites, ReplayFile};
use std::time::Instant;
use verif_rt::core::{Rng, Source};

pub struct Budget {
    pub execs: u64,
    pub secs: f64,
    pub used: u64,
    pub t0: Instant,
}

impl Budget {
    fn left(&self) -> bool {
        self.used < self.execs && self.t0.elapsed().as_secs_f64() < self.secs
    }
}

struct State {
    case: Case,
    picks: Vec<u16>,
    oracle: String,
    message: String,
    stale: Vec<String>,
    markers: Vec<String>,
}

type Hit = (Vec<u16>, String, Vec<String>, Vec<String>);

fn run_with(case: &Case, picks: &[u16], oracle: &str, b: &mut Budget) -> Option<Hit> {
    b.used += 1;
    let r = execute(
        case,
        Source::Replay {
            picks: picks.to_vec(),
            pos: 0,
        },
        false,
    );
    match &r.failure {
        Some((k, m)) if k == oracle => Some((
            r.trace.iter().map(|d| d.pick).collect(),
            m.clone(),
            stale_sites(&r.out),
            crate::marks::all(),
        )),
        _ => None,
    }
}

fn run_random(case: &Case, seed: u64, oracle: &str, b: &mut Budget) -> Option<Hit> {
    b.used += 1;
    let r = execute(case, Source::Random(Rng::new(seed)), false);
    match &r.failure {
        Some((k, m)) if k == oracle => Some((
            r.trace.iter().map(|d| d.pick).collect(),
            m.clone(),
            stale_sites(&r.out),
            crate::marks::all(),
        )),
        _ => None,
    }
}

fn try_prog(st: &mut State, prog: Program, b: &mut Budget, random_tries: u64) -> bool {
    let cand = Case {
        cfg: st.case.cfg.clone(),
        prog,
    };
    let mut res = run_with(&cand, &st.picks, &st.oracle, b);
    if res.is_none() {
        // all-default schedule
        res = run_with(&cand, &[], &st.oracle, b);
    }
    let mut i = 0;
    while res.is_none() && i < random_tries && b.left() {
        res = run_random(&cand, 0x5151 + i * 7919 + st.picks.len() as u64, &st.oracle, b);
        i += 1;
    }
    if let Some((p, m, s, mk)) = res {
        st.case = cand;
        st.picks = p;
        st.message = m;
        st.stale = s;
        st.markers = mk;
        true
    } else {
        false
    }
}

fn simpler_ops(op: &Op) -> Vec<Op> {
    match op {
        Op::Rcu { c, h, r } => {
            let mut v = vec![Op::Swap {
                c: *c,
                v: crate::program::V::New,
                h: *h,
            }];
            if r.interfere > 0 || r.load_other.is_some() {
                let mut r2 = *r;
                r2.interfere = 0;
                r2.load_other = None;
                v.push(Op::Rcu { c: *c, h: *h, r: r2 });
            }
            v
        }
        Op::Swap { c, v, .. } => vec![Op::Store { c: *c, v: *v }],
        Op::Cas { c, v, .. } => vec![Op::Store { c: *c, v: *v }],
        Op::Load { c, .. } => vec![Op::LoadDrop { c: *c }],
        Op::LoadFull { c, .. } => vec![Op::LoadDrop { c: *c }],
        Op::Store { c, v } if *v != crate::program::V::New => vec![Op::Store {
            c: *c,
            v: crate::program::V::New,
        }],
        Op::Loop { ops, until, max } if *max > 1 => vec![Op::Loop {
            ops: ops.clone(),
            until: *until,
            max: *max / 2,
        }],
        Op::TlsOp { ops } if ops.len() > 1 => vec![Op::TlsOp {
            ops: ops[..1].to_vec(),
        }],
        _ => vec![],
    }
}

pub fn minimise(rf: &ReplayFile, execs: u64, secs: f64) -> (ReplayFile, u64) {
    let mut b = Budget {
        execs,
        secs,
        used: 0,
        t0: Instant::now(),
    };
    let mut st = State {
        case: rf.case.clone(),
        picks: crate::decode_picks(&rf.picks),
        oracle: rf.oracle.clone(),
        message: rf.message.clone(),
        stale: rf.stale_sites.clone(),
        markers: rf.markers.clone(),
    };
    // Sanity: the input must fail as recorded.
    match run_with(&st.case, &st.picks, &st.oracle, &mut b) {
        Some((p, m, s, mk)) => {
            st.picks = p;
            st.message = m;
            st.stale = s;
            st.markers = mk;
        }
        None => return (rf.clone(), b.used),
    }
    let mut progress = true;
    let mut round = 0;
    while progress && b.left() && round < 6 {
        progress = false;
        round += 1;
        // (a) program shrinking: whole threads, then single operations, then simpler operations
        let nt = st.case.prog.threads.len();
        for t in (0..nt).rev() {
            if !b.left() {
                break;
            }
            if !st.case.prog.threads[t].ops.is_empty() {
                let mut p = st.case.prog.clone();
                p.threads[t].ops.clear();
                if try_prog(&mut st, p, &mut b, 6) {
                    progress = true;
                }
            }
        }
        for t in (0..nt).rev() {
            let mut i = st.case.prog.threads[t].ops.len();
            while i > 0 && b.left() {
                i -= 1;
                if i >= st.case.prog.threads[t].ops.len() {
                    continue;
                }
                let mut p = st.case.prog.clone();
                p.threads[t].ops.remove(i);
                if try_prog(&mut st, p, &mut b, 6) {
                    progress = true;
                    continue;
                }
                let alts = simpler_ops(&st.case.prog.threads[t].ops[i]);
                for alt in alts {
                    if !b.left() {
                        break;
                    }
                    let mut p = st.case.prog.clone();
                    p.threads[t].ops[i] = alt;
                    if try_prog(&mut st, p, &mut b, 3) {
                        progress = true;
                        break;
                    }
                }
            }
        }
        // containers nobody uses any more are left in place: indices stay stable.

        // (b) decision shrinking: delta debugging over the non-default picks
        let mut chunk = {
            let nz = st.picks.iter().filter(|p| **p != 0).count();
            (nz / 2).max(1)
        };
        loop {
            if !b.left() {
                break;
            }
            let nz: Vec<usize> = st
                .picks
                .iter()
                .enumerate()
                .filter(|(_, p)| **p != 0)
                .map(|(i, _)| i)
                .collect();
            if nz.is_empty() {
                break;
            }
            let mut any = false;
            let mut start = 0;
            while start < nz.len() && b.left() {
                let end = (start + chunk).min(nz.len());
                let mut cand = st.picks.clone();
                for k in start..end {
                    if nz[k] < cand.len() {
                        cand[nz[k]] = 0;
                    }
                }
                if let Some((p, m, s, mk)) = run_with(&st.case, &cand, &st.oracle, &mut b) {
                    st.picks = p;
                    st.message = m;
                    st.stale = s;
                    st.markers = mk;
                    any = true;
                    progress = true;
                    break; // positions changed: recompute
                }
                start = end;
            }
            if !any {
                if chunk == 1 {
                    break;
                }
                chunk = (chunk / 2).max(1);
            }
        }
        // lower non-default picks towards 1 (simpler alternatives)
        let nzpos: Vec<usize> = st
            .picks
            .iter()
            .enumerate()
            .filter(|(_, p)| **p > 1)
            .map(|(i, _)| i)
            .collect();
        for pos in nzpos {
            if !b.left() {
                break;
            }
            if pos < st.picks.len() && st.picks[pos] > 1 {
                let mut cand = st.picks.clone();
                cand[pos] = 1;
                if let Some((p, m, s, mk)) = run_with(&st.case, &cand, &st.oracle, &mut b) {
                    st.picks = p;
                    st.message = m;
                    st.stale = s;
                    st.markers = mk;
                }
            }
        }
    }
    // Re-record the final trace as Dec list for encoding (kinds are informational only).
    let r = execute(
        &st.case,
        Source::Replay {
            picks: st.picks.clone(),
            pos: 0,
        },
        false,
    );
    let picks = encode_picks(&r.trace);
    let out = ReplayFile {
        property: rf.property.clone(),
        primary_property: rf.primary_property.clone(),
        oracle: st.oracle.clone(),
        message: st.message.clone(),
        seed: rf.seed,
        exec_seed: rf.exec_seed,
        minimised: true,
        n_decisions: r.trace.len(),
        n_nonzero: r.trace.iter().filter(|d| d.pick != 0).count(),
        stale_sites: st.stale.clone(),
        markers: st.markers.clone(),
        rng_seed: None,
        worker_iter: rf.worker_iter,
        replay_with_history: false,
        case: st.case.clone(),
        picks,
    };
    (out, b.used)
}
