//! Program specification (what the simulated threads do). Programs are generated from the
//! PRNG *before* an execution starts and written into the replay file explicitly, so the
//! minimiser can edit them.

use serde::{Deserialize, Serialize};
use verif_rt::core::Rng;

#[derive(Clone, Copy, Debug, PartialEq, Eq, Serialize, Deserialize)]
pub enum CKind {
    AD,
    AF,
    OD,
    OF,
    BD,
    BF,
    /// container of weak pointers, default strategy
    WD,
}

impl CKind {
    pub fn nullable(self) -> bool {
        matches!(self, CKind::OD | CKind::OF | CKind::WD)
    }
    pub fn pointee(self) -> u8 {
        match self {
            CKind::BD | CKind::BF => 2,
            _ => 1,
        }
    }
    pub fn weak(self) -> bool {
        matches!(self, CKind::WD)
    }
    pub fn fallback_only(self) -> bool {
        matches!(self, CKind::AF | CKind::OF | CKind::BF)
    }
}

#[derive(Clone, Copy, Debug, PartialEq, Eq, Serialize, Deserialize)]
pub enum Init {
    New,
    Null,
    /// The same object as container `c` was initialised with (one value in several containers).
    SameAs(u8),
    /// A weak pointer to the object container `c` was initialised with.
    WeakOf(u8),
}

#[derive(Clone, Debug, Serialize, Deserialize)]
pub struct ContSpec {
    pub kind: CKind,
    pub init: Init,
}

#[derive(Clone, Copy, Debug, PartialEq, Eq, Serialize, Deserialize)]
pub enum V {
    New,
    /// A clone of my handle slot `h` (falls back to New when empty or of the wrong kind).
    H(u8),
    Null,
    /// A fresh value whose destructor is armed to panic from the start: if the operation rejects
    /// it (a compare_and_swap that does not match) the crate itself drops its last count.
    NewArmed,
}

#[derive(Clone, Copy, Debug, PartialEq, Eq, Serialize, Deserialize)]
pub enum Cur {
    /// My handle slot.
    H(u8),
    /// My guard slot.
    G(u8),
    Null,
    /// Whatever is stored right now (peeked without synchronisation; raw form).
    Stored,
    /// The k-th most recent address this thread has seen (possibly of a destroyed object).
    Seen(u8),
}

#[derive(Clone, Copy, Debug, Default, PartialEq, Eq, Serialize, Deserialize)]
pub struct RcuSpec {
    /// On attempts 1..=interfere the closure itself stores a new value into the same container,
    /// which forces its own compare-and-swap to fail (deterministic retries).
    pub interfere: u8,
    /// The closure loads this other container first (re-entrancy), if set.
    pub load_other: Option<u8>,
    /// The closure panics on this attempt (1-based), 0 = never.
    pub panic_at: u8,
    /// What the closure returns: 0 a fresh value, 1 the empty value (nullable kinds; fresh
    /// otherwise), 2 a clone of its input ("nothing to update").
    #[serde(default)]
    pub out: u8,
}

#[derive(Clone, Debug, Serialize, Deserialize)]
pub enum Op {
    Load { c: u8, g: u8 },
    LoadDrop { c: u8 },
    LoadFull { c: u8, h: u8 },
    CheckGuard { g: u8 },
    DropGuard { g: u8 },
    GuardIntoInner { g: u8, h: u8 },
    GuardFromInner { c: u8, h: u8, g: u8 },
    SendGuard { g: u8, to: u8 },
    RecvDrop,
    Store { c: u8, v: V },
    Swap { c: u8, v: V, h: u8 },
    /// form: 0 `&T`, 1 `&Guard`, 2 `Guard`, 3 `*const`, 4 `*mut`
    Cas { c: u8, cur: Cur, form: u8, v: V, g: u8 },
    Rcu { c: u8, r: RcuSpec, h: u8 },
    IntoInner { c: u8, h: u8 },
    ReleaseCont { c: u8 },
    DropHandle { h: u8 },
    CloneHandle { h: u8, h2: u8 },
    ArmDropPanic { h: u8 },
    /// Arm the destructor of whatever container c stores right now (it panics when the last
    /// count goes, wherever that happens).
    ArmStored { c: u8 },
    /// The k-th projection (Map / MapCache closure) that runs on this thread from now on panics.
    ArmProjPanic { k: u8 },
    /// A short sequential exercise of the parts of the API that exist only for the real
    /// `std::sync::Arc` (from_pointee, empty, Default, From, Debug/Display, ArcSwapAny::map,
    /// Cache::from / arc_swap), on containers private to this thread but on this thread's node.
    StdArc { variant: u8 },
    /// The destructor of whatever container `c` stores right now will itself use the crate when
    /// it runs (wherever the last count goes): `store` a fresh value into container `into`
    /// (`load == false`) or load-and-drop from it (`load == true`).
    ArmDropOp { c: u8, into: u8, load: bool },
    Spawn { t: u8 },
    Join { t: u8 },
    /// Register a thread-local whose destructor performs `ops` at thread exit.
    TlsOp { ops: Vec<Op> },
    /// Preset the helping generation so that the `off`-th next fallback load wraps (off >= 1).
    SetGen { off: i32 },
    Barrier { id: u8, n: u8 },
    /// Cache operations (C16): cache `k` of this thread over container c.
    CacheNew { c: u8, k: u8 },
    CacheLoad { k: u8 },
    CacheClone { k: u8, k2: u8 },
    CacheDrop { k: u8 },
    /// Access/Map operations (C17): depth = number of stacked Map projections, dynamic = through
    /// Box<dyn DynAccess>. The projection guard goes to access-guard slot `a`.
    AccLoad { c: u8, depth: u8, dynamic: bool, a: u8 },
    AccCheck { a: u8 },
    AccDrop { a: u8 },
    /// Repeat the ops until thread `until` (program index) has finished, at most `max` times.
    Loop { ops: Vec<Op>, until: u8, max: u8 },
}

#[derive(Clone, Debug, Default, Serialize, Deserialize)]
pub struct ThreadProg {
    pub ops: Vec<Op>,
    /// Spawned by main at the start (otherwise only via an explicit Spawn).
    pub top: bool,
}

#[derive(Clone, Debug, Default, Serialize, Deserialize)]
pub struct Program {
    pub conts: Vec<ContSpec>,
    /// threads[0] is main.
    pub threads: Vec<ThreadProg>,
    /// Variation of the final clean-up order.
    pub final_order: u8,
}

impl Program {
    pub fn n_ops(&self) -> usize {
        fn cnt(ops: &[Op]) -> usize {
            ops.iter()
                .map(|o| match o {
                    Op::TlsOp { ops } => 1 + cnt(ops),
                    Op::Loop { ops, .. } => 1 + cnt(ops),
                    _ => 1,
                })
                .sum()
        }
        self.threads.iter().map(|t| cnt(&t.ops)).sum()
    }
}

// ---------------------------------------------------------------------------------------------
// Generation
// ---------------------------------------------------------------------------------------------

#[derive(Clone, Debug)]
pub struct GenParams {
    pub min_threads: usize,
    pub max_threads: usize,
    pub max_conts: usize,
    pub max_ops: usize,
    /// Which container kinds may appear.
    pub kinds: Vec<CKind>,
    /// Relative weights.
    pub w_load: u32,
    pub w_load_drop: u32,
    pub w_load_full: u32,
    pub w_guard_drop: u32,
    pub w_guard_into_inner: u32,
    pub w_guard_from_inner: u32,
    pub w_check_guard: u32,
    pub w_send_guard: u32,
    pub w_store: u32,
    pub w_swap: u32,
    pub w_cas: u32,
    pub w_rcu: u32,
    pub w_into_inner: u32,
    pub w_release: u32,
    pub w_handle: u32,
    pub w_spawn: u32,
    pub w_tls: u32,
    pub w_setgen: u32,
    pub w_barrier: u32,
    pub w_arm_panic: u32,
    pub w_rcu_panic: u32,
    /// Guards pre-loaded by each thread at its start (0..=n, to exhaust the fast slots).
    pub max_prehold: usize,
    pub shared_values: bool,
    pub same_value_again: bool,
    pub main_ops: bool,
    /// Add (sometimes) a container of weak pointers to the value of another container.
    pub weak_containers: bool,
}

impl Default for GenParams {
    fn default() -> Self {
        GenParams {
            min_threads: 2,
            max_threads: 3,
            max_conts: 2,
            max_ops: 5,
            kinds: vec![CKind::AD, CKind::AF, CKind::OD, CKind::OF],
            w_load: 20,
            w_load_drop: 10,
            w_load_full: 8,
            w_guard_drop: 15,
            w_guard_into_inner: 4,
            w_guard_from_inner: 1,
            w_check_guard: 4,
            w_send_guard: 3,
            w_store: 15,
            w_swap: 10,
            w_cas: 8,
            w_rcu: 6,
            w_into_inner: 1,
            w_release: 1,
            w_handle: 4,
            w_spawn: 0,
            w_tls: 0,
            w_setgen: 0,
            w_barrier: 0,
            w_arm_panic: 0,
            w_rcu_panic: 0,
            max_prehold: 0,
            shared_values: true,
            same_value_again: true,
            main_ops: false,
            weak_containers: false,
        }
    }
}

pub const N_G: u8 = 6; // guard slots a generated thread uses besides the pre-held ones
pub const N_H: u8 = 4;

fn pick_weighted(rng: &mut Rng, ws: &[u32]) -> usize {
    let total: u64 = ws.iter().map(|x| *x as u64).sum();
    if total == 0 {
        return 0;
    }
    let mut r = rng.below(total);
    for (i, w) in ws.iter().enumerate() {
        if r < *w as u64 {
            return i;
        }
        r -= *w as u64;
    }
    ws.len() - 1
}

pub fn gen_value(rng: &mut Rng, p: &GenParams) -> V {
    // (drawn only where destructor panics are part of the workload, so every other workload
    // keeps its stream of choices)
    if p.w_arm_panic > 0 && rng.below(6) == 0 {
        return V::NewArmed;
    }
    let r = rng.below(10);
    if r < 6 || !p.same_value_again {
        V::New
    } else if r < 9 {
        V::H(rng.below(N_H as u64) as u8)
    } else {
        V::Null
    }
}

pub fn gen_op(rng: &mut Rng, p: &GenParams, n_conts: usize, n_threads: usize, me: usize, child_pool: &mut Vec<u8>, g_range: u8) -> Op {
    let c = rng.below(n_conts as u64) as u8;
    // guard slots: the general ones plus the ones filled by the pre-held guards of this thread
    let g = rng.below(g_range.max(1) as u64) as u8;
    let h = rng.below(N_H as u64) as u8;
    let ws = [
        p.w_load,
        p.w_load_drop,
        p.w_load_full,
        p.w_guard_drop,
        p.w_guard_into_inner,
        p.w_guard_from_inner,
        p.w_check_guard,
        p.w_send_guard,
        p.w_store,
        p.w_swap,
        p.w_cas,
        p.w_rcu,
        p.w_into_inner,
        p.w_release,
        p.w_handle,
        p.w_spawn,
        p.w_tls,
        p.w_setgen,
        p.w_barrier,
        p.w_arm_panic,
    ];
    match pick_weighted(rng, &ws) {
        0 => Op::Load { c, g },
        1 => Op::LoadDrop { c },
        2 => Op::LoadFull { c, h },
        3 => Op::DropGuard { g },
        4 => Op::GuardIntoInner { g, h },
        5 => Op::GuardFromInner { c, h, g },
        6 => Op::CheckGuard { g },
        7 => {
            let mut to = rng.below(n_threads as u64) as u8;
            if to as usize == me {
                to = ((me + 1) % n_threads) as u8;
            }
            Op::SendGuard { g, to }
        }
        8 => Op::Store {
            c,
            v: gen_value(rng, p),
        },
        9 => Op::Swap {
            c,
            v: gen_value(rng, p),
            h,
        },
        10 => {
            let cur = match rng.below(8) {
                0 | 1 => Cur::H(h),
                2 | 3 => Cur::G(g),
                4 => Cur::Null,
                5 | 6 => Cur::Stored,
                _ => Cur::Seen(rng.below(4) as u8),
            };
            Op::Cas {
                c,
                cur,
                form: rng.below(5) as u8,
                v: gen_value(rng, p),
                g: rng.below(N_G as u64) as u8,
            }
        }
        11 => {
            let mut r = RcuSpec::default();
            if rng.below(3) == 0 {
                r.interfere = 1 + rng.below(2) as u8;
            }
            if n_conts > 1 && rng.below(4) == 0 {
                r.load_other = Some(rng.below(n_conts as u64) as u8);
            }
            if p.w_rcu_panic > 0 && rng.below(100) < p.w_rcu_panic as u64 {
                r.panic_at = 1 + rng.below(r.interfere as u64 + 1) as u8;
            }
            r.out = match rng.below(6) {
                0 => 1,
                1 => 2,
                _ => 0,
            };
            Op::Rcu { c, r, h }
        }
        12 => Op::IntoInner { c, h },
        13 => Op::ReleaseCont { c },
        14 => {
            if rng.below(2) == 0 {
                Op::DropHandle { h }
            } else {
                Op::CloneHandle {
                    h,
                    h2: rng.below(N_H as u64) as u8,
                }
            }
        }
        15 => {
            if let Some(t) = child_pool.pop() {
                Op::Spawn { t }
            } else {
                Op::LoadDrop { c }
            }
        }
        16 => {
            let n = 1 + rng.below(2) as usize;
            let mut ops = Vec::new();
            for _ in 0..n {
                ops.push(match rng.below(4) {
                    0 => Op::LoadDrop { c },
                    1 => Op::Store { c, v: V::New },
                    2 => Op::LoadFull { c, h },
                    _ => Op::Load { c, g },
                });
            }
            Op::TlsOp { ops }
        }
        17 => Op::SetGen {
            off: 1 + rng.below(3) as i32,
        },
        18 => Op::Barrier { id: 0, n: 0 },
        _ => {
            if rng.below(2) == 0 {
                Op::ArmDropPanic { h }
            } else {
                Op::ArmStored { c }
            }
        }
    }
}

/// The general random program generator.
pub fn gen_program(rng: &mut Rng, p: &GenParams) -> Program {
    let n_conts = 1 + rng.below(p.max_conts as u64) as usize;
    let mut conts = Vec::new();
    for i in 0..n_conts {
        let kind = p.kinds[rng.below(p.kinds.len() as u64) as usize];
        let mut init = Init::New;
        if kind.nullable() && rng.below(4) == 0 {
            init = Init::Null;
        }
        if p.shared_values && i > 0 && rng.below(4) == 0 {
            // share with an earlier container of the same pointee kind
            for (j, cs) in conts.iter().enumerate() {
                let cs: &ContSpec = cs;
                if cs.kind.pointee() == kind.pointee() && cs.init == Init::New {
                    init = Init::SameAs(j as u8);
                    break;
                }
            }
        }
        conts.push(ContSpec { kind, init });
    }
    if p.weak_containers && rng.below(3) == 0 {
        // an ArcSwapWeak next to the strong container of the same allocation
        if let Some(j) = conts.iter().position(|c| c.kind.pointee() == 1 && !c.kind.weak() && c.init == Init::New) {
            conts.push(ContSpec {
                kind: CKind::WD,
                init: Init::WeakOf(j as u8),
            });
        }
    }
    let n_conts = conts.len();
    let n_workers = p.min_threads + rng.below((p.max_threads - p.min_threads + 1) as u64) as usize;
    let n_children = if p.w_spawn > 0 { 1 + rng.below(2) as usize } else { 0 };
    let n_threads = 1 + n_workers + n_children;
    let mut child_pool: Vec<u8> = ((1 + n_workers)..n_threads).map(|x| x as u8).collect();
    let mut threads = Vec::new();
    for t in 0..n_threads {
        let mut ops = Vec::new();
        let is_main = t == 0;
        let is_child = t > n_workers;
        if !is_main || p.main_ops {
            let pre = if p.max_prehold > 0 {
                rng.below(p.max_prehold as u64 + 1) as usize
            } else {
                0
            };
            for i in 0..pre {
                ops.push(Op::Load {
                    c: rng.below(n_conts as u64) as u8,
                    g: N_G + i as u8,
                });
            }
            let n_ops = 1 + rng.below(p.max_ops as u64) as usize;
            for _ in 0..n_ops {
                let mut pool = if is_child { Vec::new() } else { std::mem::take(&mut child_pool) };
                ops.push(gen_op(rng, p, n_conts, n_threads, t, &mut pool, N_G + pre as u8));
                if !is_child {
                    child_pool = pool;
                }
            }
        }
        threads.push(ThreadProg {
            ops,
            top: !is_main && !is_child,
        });
    }
    // Children nobody spawns are spawned by main at the start after all.
    for t in child_pool {
        threads[t as usize].top = true;
    }
    // Barrier arity = number of threads that contain a barrier.
    let nb = threads
        .iter()
        .filter(|t| t.ops.iter().any(|o| matches!(o, Op::Barrier { .. })))
        .count() as u8;
    for t in threads.iter_mut() {
        let mut seen = false;
        t.ops.retain(|o| {
            if matches!(o, Op::Barrier { .. }) {
                if seen {
                    return false;
                }
                seen = true;
            }
            true
        });
        for o in t.ops.iter_mut() {
            if let Op::Barrier { n, .. } = o {
                *n = nb;
            }
        }
    }
    Program {
        conts,
        threads,
        final_order: rng.below(16) as u8,
    }
}
