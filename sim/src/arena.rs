//! The instrumented reference-counted pointer handed to arc-swap (`SimArc<K>`, implementing the
//! crate's public `RefCnt` trait) and the per-execution arena behind it.
//!
//! * Objects are never returned to the allocator during an execution, so a bug in the crate
//!   under test cannot corrupt the simulator: touching a destroyed object is *detected*.
//! * The strong count is a shim atomic with the orderings of `std::sync::Arc`
//!   (inc Relaxed; dec Release, then an Acquire fence before destruction).
//! * Address reuse is a simulator decision (ABA).
//! * Every object has a `uid` independent of its address; histories record uids.

use arc_swap::RefCnt;
use std::cell::{Cell, RefCell};
use std::collections::BTreeMap;
use std::marker::PhantomData;
use std::sync::atomic::Ordering;
use verif_rt::atomic::AtomicUsize;
use verif_rt::core::{self as rt, LocClass, RaceCell};

pub trait Kind: 'static {
    const KIND: u8;
}
pub struct KA;
pub struct KB;
impl Kind for KA {
    const KIND: u8 = 1;
}
impl Kind for KB {
    const KIND: u8 = 2;
}

/// The pointee's plain data: nested so that projections of depth 1..3 have something to
/// project (Payload -> Inner -> u64). All three numbers equal the object's unique value.
#[derive(Clone, Copy, Debug, Default)]
pub struct Inner {
    pub val: u64,
}
#[derive(Clone, Copy, Debug, Default)]
pub struct Payload {
    pub val: u64,
    pub inner: Inner,
}

pub const ST_FREE: u8 = 0;
pub const ST_LIVE: u8 = 1;
pub const ST_DEAD: u8 = 2;
/// strong == 0 and weak == 0: the allocation is gone (its address may be reused).
pub const ST_GONE: u8 = 3;

#[repr(align(16))]
pub struct Slot {
    pub strong: AtomicUsize,
    /// Weak count as in std: the strong references collectively hold one weak reference.
    pub weak: AtomicUsize,
    pub state: Cell<u8>,
    pub uid: Cell<u32>,
    pub kind: Cell<u8>,
    pub cell: RaceCell,
    pub payload: std::cell::UnsafeCell<Payload>,
    pub idx: usize,
    pub panic_on_drop: Cell<bool>,
    /// User code in the destructor that calls back into the crate (0 = none; see interp).
    pub drop_action: Cell<u8>,
}

#[derive(Clone, Debug)]
pub struct ObjInfo {
    pub slot: usize,
    pub addr: usize,
    pub kind: u8,
    pub alive: bool,
    pub destroyed: u32,
    pub val: u64,
}

#[derive(Default)]
pub struct Arena {
    pub slots: Vec<Box<Slot>>,
    pub free: Vec<usize>,
    pub objs: Vec<ObjInfo>,
    pub by_addr: BTreeMap<usize, usize>,
    /// Called when an object is destroyed (uid). Lets the harness check that nobody owns it.
    pub on_destroy: Option<fn(u32)>,
    pub reused: u64,
}

thread_local! {
    pub static ARENA: RefCell<Arena> = RefCell::new(Arena::default());
}

/// Payload of a deliberately injected user panic (C18).
pub struct UserPanic(pub &'static str);

pub fn reset() {
    ARENA.with(|a| {
        let mut a = a.borrow_mut();
        a.slots.clear();
        a.free.clear();
        a.objs.clear();
        a.by_addr.clear();
        a.on_destroy = None;
        a.reused = 0;
    });
}

pub fn set_on_destroy(f: fn(u32)) {
    ARENA.with(|a| a.borrow_mut().on_destroy = Some(f));
}

pub fn obj_info(uid: u32) -> Option<ObjInfo> {
    if uid == 0 {
        return None;
    }
    ARENA.with(|a| a.borrow().objs.get(uid as usize - 1).cloned())
}

pub fn n_objs() -> usize {
    ARENA.with(|a| a.borrow().objs.len())
}

/// uid of the live object at `addr`, if any.
pub fn live_uid_at(addr: usize) -> Option<u32> {
    ARENA.with(|a| {
        let a = a.borrow();
        let si = *a.by_addr.get(&addr)?;
        let s = &a.slots[si];
        if s.state.get() == ST_LIVE {
            Some(s.uid.get())
        } else {
            None
        }
    })
}

/// (state, uid of last incarnation, latest strong count) of the slot at `addr`.
pub fn slot_at(addr: usize) -> Option<(u8, u32, usize)> {
    ARENA.with(|a| {
        let a = a.borrow();
        let si = *a.by_addr.get(&addr)?;
        let s = &a.slots[si];
        Some((s.state.get(), s.uid.get(), s.strong.verif_peek()))
    })
}

/// Latest weak count (std convention: includes the one held by the strong references) per slot.
pub fn weak_at(addr: usize) -> usize {
    ARENA.with(|a| {
        let a = a.borrow();
        match a.by_addr.get(&addr) {
            Some(si) => a.slots[*si].weak.verif_peek(),
            None => 0,
        }
    })
}

pub fn all_slots() -> Vec<(usize, u8, u32, usize)> {
    ARENA.with(|a| {
        a.borrow()
            .slots
            .iter()
            .map(|s| (&**s as *const Slot as usize, s.state.get(), s.uid.get(), s.strong.verif_peek()))
            .collect()
    })
}

pub struct SimArc<K: Kind> {
    ptr: *const Slot,
    _k: PhantomData<K>,
}

impl<K: Kind> SimArc<K> {
    /// Allocates a new object with strong count 1, owned by the returned handle.
    pub fn new(val: u64) -> SimArc<K> {
        let ptr = ARENA.with(|a| {
            let mut a = a.borrow_mut();
            let k = rt::reuse_choice(a.free.len());
            let si = if k > 0 {
                let n = a.free.len();
                a.reused += 1;
                a.free.remove(n - k)
            } else {
                let idx = a.slots.len();
                a.slots.push(Box::new(Slot {
                    strong: AtomicUsize::new(0),
                    weak: AtomicUsize::new(0),
                    state: Cell::new(ST_FREE),
                    uid: Cell::new(0),
                    kind: Cell::new(0),
                    cell: RaceCell::new(),
                    payload: std::cell::UnsafeCell::new(Payload::default()),
                    idx,
                    panic_on_drop: Cell::new(false),
                    drop_action: Cell::new(0),
                }));
                let addr = &*a.slots[idx] as *const Slot as usize;
                a.by_addr.insert(addr, idx);
                idx
            };
            let uid = a.objs.len() as u32 + 1;
            let addr = &*a.slots[si] as *const Slot as usize;
            a.objs.push(ObjInfo {
                slot: si,
                addr,
                kind: K::KIND,
                alive: true,
                destroyed: 0,
                val,
            });
            let s = &a.slots[si];
            s.strong.verif_reset(1);
            s.strong.verif_label(LocClass::Strong, 0);
            s.weak.verif_reset(1);
            s.weak.verif_label(LocClass::Strong, 1);
            s.state.set(ST_LIVE);
            s.uid.set(uid);
            s.kind.set(K::KIND);
            unsafe {
                *s.payload.get() = Payload {
                    val,
                    inner: Inner { val },
                };
            }
            s.panic_on_drop.set(false);
            s.drop_action.set(0);
            s.cell.reset();
            addr as *const Slot
        });
        // The initialising write of the payload, by the creating thread, before publication.
        let s = unsafe { &*ptr };
        if let Some(r) = s.cell.write("payload (initialisation)") {
            rt::fail("race", r);
        }
        SimArc { ptr, _k: PhantomData }
    }

    #[inline]
    fn slot(&self) -> &Slot {
        unsafe { &*self.ptr }
    }

    /// Stand-in target for a dereference that has just been reported as a violation (the
    /// execution is being abandoned; nothing reads it).
    fn dummy_slot() -> &'static Slot {
        thread_local! {
            static DUMMY: &'static Slot = Box::leak(Box::new(Slot {
                strong: AtomicUsize::new(0),
                weak: AtomicUsize::new(0),
                state: Cell::new(ST_FREE),
                uid: Cell::new(0),
                kind: Cell::new(0),
                cell: RaceCell::new(),
                payload: std::cell::UnsafeCell::new(Payload::default()),
                idx: usize::MAX,
                panic_on_drop: Cell::new(false),
                drop_action: Cell::new(0),
            }));
        }
        DUMMY.with(|d| *d)
    }

    pub fn addr(&self) -> usize {
        self.ptr as usize
    }

    /// Checks that the object may be touched through this handle right now.
    fn touch(&self, what: &str) -> bool {
        if rt::is_aborting() {
            return false;
        }
        if self.ptr.is_null() || !ARENA.with(|a| a.borrow().by_addr.contains_key(&(self.ptr as usize))) {
            // the library produced a non-optional handle from null or from something that is
            // not an object at all
            rt::fail(
                "type-confusion",
                format!("{} through a handle whose pointer {:#x} is not an object (null or foreign)", what, self.ptr as usize),
            );
            return false;
        }
        let s = self.slot();
        if s.state.get() != ST_LIVE {
            rt::fail(
                "uaf",
                format!(
                    "{} on destroyed object uid={} (thread {})",
                    what,
                    s.uid.get(),
                    rt::current()
                ),
            );
            return false;
        }
        if s.kind.get() != K::KIND {
            rt::fail(
                "type-confusion",
                format!(
                    "{} through a handle of kind {} on object uid={} of kind {}",
                    what,
                    K::KIND,
                    s.uid.get(),
                    s.kind.get()
                ),
            );
            return false;
        }
        true
    }

    /// Reads the identity through the handle (a non-atomic read of the payload).
    pub fn uid(&self) -> u32 {
        if !self.touch("deref") {
            return u32::MAX;
        }
        let s = self.slot();
        if let Some(r) = s.cell.read("payload") {
            rt::fail("race", r);
        }
        s.uid.get()
    }

    /// Reads the payload value through the handle.
    pub fn val(&self) -> u64 {
        if !self.touch("deref") {
            return u64::MAX;
        }
        let s = self.slot();
        if let Some(r) = s.cell.read("payload") {
            rt::fail("race", r);
        }
        unsafe { (*s.payload.get()).val }
    }

    /// Borrow the payload through the handle (liveness and race checked like any deref).
    pub fn payload(&self) -> &Payload {
        static DEAD: Payload = Payload {
            val: u64::MAX,
            inner: Inner { val: u64::MAX },
        };
        if !self.touch("deref") {
            return &DEAD;
        }
        let s = self.slot();
        if let Some(r) = s.cell.read("payload") {
            rt::fail("race", r);
        }
        unsafe { &*s.payload.get() }
    }

    /// Identity without touching the object (harness bookkeeping only).
    pub fn peek_uid(&self) -> u32 {
        if self.ptr.is_null() {
            return 0;
        }
        self.slot().uid.get()
    }

    pub fn set_panic_on_drop(&self, on: bool) {
        self.slot().panic_on_drop.set(on);
    }

    pub fn strong_latest(&self) -> usize {
        self.slot().strong.verif_peek()
    }
}

impl<K: Kind> Clone for SimArc<K> {
    fn clone(&self) -> Self {
        // As std::sync::Arc: Relaxed increment.
        if self.touch("increment") {
            let old = self.slot().strong.fetch_add(1, Ordering::Relaxed);
            if old == 0 && !rt::is_aborting() {
                rt::fail(
                    "uaf",
                    format!("increment of a zero reference count, uid={}", self.slot().uid.get()),
                );
            }
        }
        SimArc {
            ptr: self.ptr,
            _k: PhantomData,
        }
    }
}

impl<K: Kind> Drop for SimArc<K> {
    fn drop(&mut self) {
        if !self.touch("decrement") {
            return;
        }
        let s = self.slot();
        let uid = s.uid.get();
        // As std::sync::Arc: Release decrement, Acquire fence before destruction.
        let old = s.strong.fetch_sub(1, Ordering::Release);
        if rt::is_aborting() {
            return;
        }
        if old == 0 {
            rt::fail("double-release", format!("reference count underflow on uid={}", uid));
            return;
        }
        if old != 1 {
            return;
        }
        verif_rt::atomic::fence(Ordering::Acquire);
        if rt::is_aborting() {
            return;
        }
        if s.state.get() != ST_LIVE || s.uid.get() != uid {
            rt::fail("double-release", format!("object uid={} destroyed twice", uid));
            return;
        }
        s.state.set(ST_DEAD);
        if let Some(r) = s.cell.write("payload (destructor)") {
            rt::fail("race", r);
            return;
        }
        let hook = ARENA.with(|a| {
            let mut a = a.borrow_mut();
            let o = &mut a.objs[uid as usize - 1];
            o.alive = false;
            o.destroyed += 1;
            a.on_destroy
        });
        if let Some(h) = hook {
            h(uid);
        }
        // the strong references collectively held one weak reference: give it back (this is
        // what frees the allocation once no Weak is left)
        release_weak(self.ptr, uid);
        if rt::is_aborting() {
            return;
        }
        let action = s.drop_action.get();
        if action != 0 && !std::thread::panicking() && !rt::is_aborting() {
            // the pointee's destructor is user code: it may use the crate itself
            s.drop_action.set(0);
            crate::interp::run_drop_action(action);
            if rt::is_aborting() {
                return;
            }
        }
        if s.panic_on_drop.get() && !std::thread::panicking() && !rt::is_aborting() {
            s.panic_on_drop.set(false);
            let (lp, op) = rt::last_probe_and_op();
            crate::marks::mark(format!(
                "dtor-panic: in {} after probe {}",
                crate::interp::OP_NAMES.get(op as usize).copied().unwrap_or("-"),
                verif_rt::probes::NAMES.get(lp).copied().unwrap_or("-")
            ));
            std::panic::resume_unwind(Box::new(UserPanic("destructor")));
        }
    }
}

unsafe impl<K: Kind> RefCnt for SimArc<K> {
    type Base = Slot;
    fn into_ptr(me: Self) -> *mut Slot {
        let p = me.ptr as *mut Slot;
        std::mem::forget(me);
        p
    }
    fn as_ptr(me: &Self) -> *mut Slot {
        me.ptr as *mut Slot
    }
    unsafe fn from_ptr(ptr: *const Slot) -> Self {
        SimArc { ptr, _k: PhantomData }
    }
}

/// uid of the object whose (unique) payload value is `val`.
pub fn uid_by_val(val: u64) -> u32 {
    ARENA.with(|a| {
        a.borrow()
            .objs
            .iter()
            .position(|o| o.val == val)
            .map(|i| i as u32 + 1)
            .unwrap_or(0)
    })
}

/// Arms the destructor panic of the live object at `addr` (harness knob for C18).
pub fn arm_panic_at(addr: usize) -> bool {
    ARENA.with(|a| {
        let a = a.borrow();
        match a.by_addr.get(&addr) {
            Some(si) if a.slots[*si].state.get() == ST_LIVE => {
                a.slots[*si].panic_on_drop.set(true);
                true
            }
            _ => false,
        }
    })
}

/// Arms the destructor of the live object at `addr` with a nested operation.
pub fn arm_action_at(addr: usize, action: u8) -> bool {
    ARENA.with(|a| {
        let a = a.borrow();
        match a.by_addr.get(&addr) {
            Some(si) if a.slots[*si].state.get() == ST_LIVE => {
                a.slots[*si].drop_action.set(action);
                true
            }
            _ => false,
        }
    })
}

/// Drops one weak reference of the allocation at `ptr`; the last one frees the allocation (its
/// address becomes reusable).
fn release_weak(ptr: *const Slot, uid: u32) {
    let s = unsafe { &*ptr };
    let old = s.weak.fetch_sub(1, Ordering::Release);
    if rt::is_aborting() {
        return;
    }
    if old == 0 {
        rt::fail("double-release", format!("weak count underflow on uid={}", uid));
        return;
    }
    if old != 1 {
        return;
    }
    verif_rt::atomic::fence(Ordering::Acquire);
    if rt::is_aborting() {
        return;
    }
    if s.state.get() != ST_DEAD || s.uid.get() != uid {
        rt::fail(
            "uaf",
            format!("allocation of uid={} freed (weak count reached zero) while the value is still alive or already gone", uid),
        );
        return;
    }
    s.state.set(ST_GONE);
    ARENA.with(|a| {
        let mut a = a.borrow_mut();
        if let Some(si) = a.by_addr.get(&(ptr as usize)).copied() {
            a.free.push(si);
        }
    });
}

/// A weak pointer to an arena object (`std::sync::Weak` stand-in). `ptr` null = dangling
/// (`Weak::new()`).
pub struct SimWeak<K: Kind> {
    ptr: *const Slot,
    uid: u32,
    _k: PhantomData<K>,
}

impl<K: Kind> SimWeak<K> {
    pub fn dangling() -> SimWeak<K> {
        SimWeak {
            ptr: std::ptr::null(),
            uid: 0,
            _k: PhantomData,
        }
    }
    pub fn addr(&self) -> usize {
        self.ptr as usize
    }
    /// Identity of the allocation (harness bookkeeping, no access to the object).
    pub fn peek_uid(&self) -> u32 {
        self.uid
    }
    fn touch(&self, what: &str) -> bool {
        if rt::is_aborting() {
            return false;
        }
        if !ARENA.with(|a| a.borrow().by_addr.contains_key(&(self.ptr as usize))) {
            rt::fail("type-confusion", format!("{} through a weak handle whose pointer {:#x} is not an object", what, self.ptr as usize));
            return false;
        }
        let s = unsafe { &*self.ptr };
        if s.state.get() == ST_GONE || s.state.get() == ST_FREE {
            rt::fail("uaf", format!("{} of the weak count of a freed allocation (uid={})", what, s.uid.get()));
            return false;
        }
        if s.kind.get() != K::KIND {
            rt::fail("type-confusion", format!("{} through a weak handle of kind {} on object uid={} of kind {}", what, K::KIND, s.uid.get(), s.kind.get()));
            return false;
        }
        true
    }
}

/// `Deref` to the allocation, like `Arc<T>: Deref<Target = T>` with `T` = the crate's `Base`
/// (needed by `impl Access<T::Target> for Cache<A, T>`). Liveness- and race-checked like any
/// other dereference.
impl<K: Kind> std::ops::Deref for SimArc<K> {
    type Target = Slot;
    fn deref(&self) -> &Slot {
        if !self.touch("deref") {
            return Self::dummy_slot();
        }
        let s = self.slot();
        if let Some(r) = s.cell.read("payload") {
            rt::fail("race", r);
        }
        s
    }
}

impl<K: Kind> SimArc<K> {
    /// `Arc::downgrade`.
    pub fn downgrade(&self) -> SimWeak<K> {
        if !self.touch("downgrade") {
            return SimWeak::dangling();
        }
        let s = self.slot();
        s.weak.fetch_add(1, Ordering::Relaxed);
        SimWeak {
            ptr: self.ptr,
            uid: s.uid.get(),
            _k: PhantomData,
        }
    }
}

impl<K: Kind> Clone for SimWeak<K> {
    fn clone(&self) -> Self {
        if !self.ptr.is_null() && self.touch("weak increment") {
            let s = unsafe { &*self.ptr };
            let old = s.weak.fetch_add(1, Ordering::Relaxed);
            if old == 0 && !rt::is_aborting() {
                rt::fail("uaf", format!("weak increment of a zero weak count, uid={}", s.uid.get()));
            }
        }
        SimWeak {
            ptr: self.ptr,
            uid: self.uid,
            _k: PhantomData,
        }
    }
}

impl<K: Kind> Drop for SimWeak<K> {
    fn drop(&mut self) {
        if self.ptr.is_null() || !self.touch("weak decrement") {
            return;
        }
        let uid = unsafe { (*self.ptr).uid.get() };
        release_weak(self.ptr, uid);
    }
}

unsafe impl<K: Kind> RefCnt for SimWeak<K> {
    type Base = Slot;
    fn into_ptr(me: Self) -> *mut Slot {
        let p = me.ptr as *mut Slot;
        std::mem::forget(me);
        p
    }
    fn as_ptr(me: &Self) -> *mut Slot {
        me.ptr as *mut Slot
    }
    unsafe fn from_ptr(ptr: *const Slot) -> Self {
        let known = !ptr.is_null() && ARENA.with(|a| a.borrow().by_addr.contains_key(&(ptr as usize)));
        let uid = if known { (*ptr).uid.get() } else { 0 };
        SimWeak {
            ptr,
            uid,
            _k: PhantomData,
        }
    }
}
